"""C06 - derived constructors and infix operators denote what they say."""
import itertools
import random
from fractions import Fraction

from . import bp as B
from . import gen as G
from . import monitors as M
from . import common
from . import refeval as R
from .bp import BOOL, INT, REAL, BV

PROP = 'C06'


class Skip(Exception):
    pass


def tc(v, w):
    return v - 2 ** w if v >= 2 ** (w - 1) else v


def bvsmod(a, b, w):
    """SMT-LIB: sign follows the divisor; x smod 0 = x."""
    sa, sb = tc(a, w), tc(b, w)
    if sb == 0:
        return a
    return (sa % sb) % 2 ** w      # python % has the sign of the divisor


def euclid_div(a, b):
    if b == 0:
        raise Skip()
    return a // b if b > 0 else -(a // -b)


def cases(mgr, shortcuts):
    """Yield (name, sorts, build(args)->FNode, py(vals)->value)."""
    S = shortcuts
    C = []

    def add(name, sorts, build, py):
        C.append((name, tuple(sorts), build, py))

    # ---- Boolean -----------------------------------------------------------
    add('Xor', [BOOL, BOOL], lambda a, b: mgr.Xor(a, b), lambda a, b: a != b)
    add('infix ^ (bool)', [BOOL, BOOL], lambda a, b: a ^ b,
        lambda a, b: a != b)
    add('infix &', [BOOL, BOOL], lambda a, b: a & b, lambda a, b: a and b)
    add('infix |', [BOOL, BOOL], lambda a, b: a | b, lambda a, b: a or b)
    add('infix ~', [BOOL], lambda a: ~a, lambda a: not a)
    add('infix & True', [BOOL], lambda a: a & True, lambda a: a)
    add('infix False | a', [BOOL], lambda a: False | a, lambda a: a)
    add('infix True ^ a', [BOOL], lambda a: True ^ a, lambda a: not a)
    add('.Implies', [BOOL, BOOL], lambda a, b: a.Implies(b),
        lambda a, b: (not a) or b)
    add('.Iff', [BOOL, BOOL], lambda a, b: a.Iff(b), lambda a, b: a == b)
    add('.And', [BOOL, BOOL], lambda a, b: a.And(b), lambda a, b: a and b)
    add('.Or', [BOOL, BOOL], lambda a, b: a.Or(b), lambda a, b: a or b)
    add('.Ite (bool)', [BOOL, BOOL, BOOL], lambda c, a, b: c.Ite(a, b),
        lambda c, a, b: a if c else b)
    add('.Implies(False)', [BOOL], lambda a: a.Implies(False),
        lambda a: not a)
    add('EqualsOrIff (bool)', [BOOL, BOOL],
        lambda a, b: mgr.EqualsOrIff(a, b), lambda a, b: a == b)
    for n in range(0, 6):
        add('AtMostOne/%d' % n, [BOOL] * n,
            lambda *a: mgr.AtMostOne(*a) if len(a) != 1
            else mgr.AtMostOne(list(a)),
            lambda *a: sum(a) <= 1)
        add('ExactlyOne/%d' % n, [BOOL] * n,
            lambda *a: mgr.ExactlyOne(list(a)), lambda *a: sum(a) == 1)
        add('AllDifferent bool/%d' % n, [BOOL] * n,
            lambda *a: mgr.AllDifferent(list(a)),
            lambda *a: len(set(a)) == len(a))
        add('And/%d' % n, [BOOL] * n, lambda *a: mgr.And(list(a)),
            lambda *a: all(a))
        add('Or/%d' % n, [BOOL] * n, lambda *a: mgr.Or(*a) if len(a) != 1
            else mgr.Or(list(a)), lambda *a: any(a))
    # ---- Int / Real --------------------------------------------------------
    for T, lit, lits in ((INT, lambda v: v, (0, 1, -3, 7)),
                         (REAL, lambda v: Fraction(v),
                          (0, 1, -3, Fraction(7, 2)))):
        tn = T[0]
        add('GE ' + tn, [T, T], lambda a, b: mgr.GE(a, b),
            lambda a, b: a >= b)
        add('GT ' + tn, [T, T], lambda a, b: mgr.GT(a, b),
            lambda a, b: a > b)
        add('NotEquals ' + tn, [T, T], lambda a, b: mgr.NotEquals(a, b),
            lambda a, b: a != b)
        add('EqualsOrIff ' + tn, [T, T], lambda a, b: mgr.EqualsOrIff(a, b),
            lambda a, b: a == b)
        add('Abs ' + tn, [T], lambda a: S.Abs(a), lambda a: abs(a))
        add('infix + ' + tn, [T, T], lambda a, b: a + b, lambda a, b: a + b)
        add('infix - ' + tn, [T, T], lambda a, b: a - b, lambda a, b: a - b)
        add('infix * ' + tn, [T, T], lambda a, b: a * b, lambda a, b: a * b)
        add('infix unary - ' + tn, [T], lambda a: -a, lambda a: -a)
        add('infix < ' + tn, [T, T], lambda a, b: a < b, lambda a, b: a < b)
        add('infix <= ' + tn, [T, T], lambda a, b: a <= b,
            lambda a, b: a <= b)
        add('infix > ' + tn, [T, T], lambda a, b: a > b, lambda a, b: a > b)
        add('infix >= ' + tn, [T, T], lambda a, b: a >= b,
            lambda a, b: a >= b)
        add('.Equals ' + tn, [T, T], lambda a, b: a.Equals(b),
            lambda a, b: a == b)
        add('.NotEquals ' + tn, [T, T], lambda a, b: a.NotEquals(b),
            lambda a, b: a != b)
        add('.Ite ' + tn, [BOOL, T, T], lambda c, a, b: c.Ite(a, b),
            lambda c, a, b: a if c else b)
        # infix operators whose receiver is itself a product / sum built
        # through the manager (n-ary, constant factors in any position)
        one = (lambda v: v) if T == INT else (lambda v: Fraction(v))
        for cpos in (0, 1, 2):
            for cval in (-1, 1, -2, 0):
                def prod(a, b, cpos=cpos, cval=cval, T=T):
                    fs = [a, b]
                    fs.insert(cpos, mgr.Int(cval) if T == INT
                              else mgr.Real(cval))
                    return mgr.Times(fs)
                add('infix unary - on Times/3 [c=%d at %d] %s' % (
                    cval, cpos, tn), [T, T],
                    lambda a, b, prod=prod: -prod(a, b),
                    lambda a, b, cval=cval: -(a * b * cval))
                add('infix k - Times/3 [c=%d at %d] %s' % (cval, cpos, tn),
                    [T, T], lambda a, b, prod=prod: 3 - prod(a, b),
                    lambda a, b, cval=cval: 3 - a * b * cval)
                add('infix Times/3 * -1 [c=%d at %d] %s' % (cval, cpos, tn),
                    [T, T], lambda a, b, prod=prod: prod(a, b) * -1,
                    lambda a, b, cval=cval: -(a * b * cval))
        add('infix unary - on Plus/3 ' + tn, [T, T],
            lambda a, b, T=T: -mgr.Plus(a, b, mgr.Int(-1) if T == INT
                                        else mgr.Real(-1)),
            lambda a, b: -(a + b - 1))
        add('infix unary - twice ' + tn, [T], lambda a: -(-a),
            lambda a: a)
        if T == INT:
            add('infix / Int', [T, T], lambda a, b: a / b,
                lambda a, b: euclid_div(a, b))
        else:
            def rdiv(a, b):
                if b == 0:
                    raise Skip()
                return Fraction(a) / b
            add('infix / Real', [T, T], lambda a, b: a / b, rdiv)
        for c in lits:
            c_ = lit(c)
            add('infix x+%s %s' % (c, tn), [T], lambda a, c_=c_: a + c_,
                lambda a, c_=c_: a + c_)
            add('infix %s+x %s' % (c, tn), [T], lambda a, c_=c_: c_ + a,
                lambda a, c_=c_: c_ + a)
            add('infix x-%s %s' % (c, tn), [T], lambda a, c_=c_: a - c_,
                lambda a, c_=c_: a - c_)
            add('infix %s-x %s' % (c, tn), [T], lambda a, c_=c_: c_ - a,
                lambda a, c_=c_: c_ - a)
            add('infix x*%s %s' % (c, tn), [T], lambda a, c_=c_: a * c_,
                lambda a, c_=c_: a * c_)
            add('infix %s*x %s' % (c, tn), [T], lambda a, c_=c_: c_ * a,
                lambda a, c_=c_: c_ * a)
            add('infix x<%s %s' % (c, tn), [T], lambda a, c_=c_: a < c_,
                lambda a, c_=c_: a < c_)
            add('infix x>=%s %s' % (c, tn), [T], lambda a, c_=c_: a >= c_,
                lambda a, c_=c_: a >= c_)
            add('infix %s<x %s' % (c, tn), [T], lambda a, c_=c_: c_ < a,
                lambda a, c_=c_: c_ < a)
            add('infix %s>=x %s' % (c, tn), [T], lambda a, c_=c_: c_ >= a,
                lambda a, c_=c_: c_ >= a)
            add('.Equals(%s) %s' % (c, tn), [T],
                lambda a, c_=c_: a.Equals(c_), lambda a, c_=c_: a == c_)
            if c != 0:
                if T == INT:
                    add('infix x/%s Int' % c, [T], lambda a, c_=c_: a / c_,
                        lambda a, c_=c_: euclid_div(a, c_))
                else:
                    add('infix x/%s Real' % c, [T], lambda a, c_=c_: a / c_,
                        lambda a, c_=c_: Fraction(a) / c_)
        for n in range(1, 6):
            add('Min %s/%d' % (tn, n), [T] * n,
                lambda *a: mgr.Min(*a) if len(a) > 1 else mgr.Min(list(a)),
                lambda *a: min(a))
            add('Max %s/%d' % (tn, n), [T] * n, lambda *a: mgr.Max(list(a)),
                lambda *a: max(a))
            add('AllDifferent %s/%d' % (tn, n), [T] * n,
                lambda *a: mgr.AllDifferent(*a) if len(a) > 1
                else mgr.AllDifferent(list(a)),
                lambda *a: len(set(a)) == len(a))
            add('Plus %s/%d' % (tn, n), [T] * n, lambda *a: mgr.Plus(list(a)),
                lambda *a: sum(a))
            add('Times %s/%d' % (tn, n), [T] * n,
                lambda *a: mgr.Times(list(a)),
                lambda *a: __import__('functools').reduce(
                    lambda x, y: x * y, a))
    return C


def bv_cases(mgr, w):
    M_ = 2 ** w
    T = BV(w)
    C = []

    def add(name, sorts, build, py):
        C.append(('%s [w=%d]' % (name, w), tuple(sorts), build, py))

    add('BVNand', [T, T], lambda a, b: mgr.BVNand(a, b),
        lambda a, b: (M_ - 1) ^ (a & b))
    add('BVNor', [T, T], lambda a, b: mgr.BVNor(a, b),
        lambda a, b: (M_ - 1) ^ (a | b))
    add('BVXnor', [T, T], lambda a, b: mgr.BVXnor(a, b),
        lambda a, b: (M_ - 1) ^ (a ^ b))
    add('BVUGT', [T, T], lambda a, b: mgr.BVUGT(a, b), lambda a, b: a > b)
    add('BVUGE', [T, T], lambda a, b: mgr.BVUGE(a, b), lambda a, b: a >= b)
    add('BVSGT', [T, T], lambda a, b: mgr.BVSGT(a, b),
        lambda a, b: tc(a, w) > tc(b, w))
    add('BVSGE', [T, T], lambda a, b: mgr.BVSGE(a, b),
        lambda a, b: tc(a, w) >= tc(b, w))
    add('BVSMod', [T, T], lambda a, b: mgr.BVSMod(a, b),
        lambda a, b: bvsmod(a, b, w))
    add('.BVSMod', [T, T], lambda a, b: a.BVSMod(b),
        lambda a, b: bvsmod(a, b, w))
    add('NotEquals bv', [T, T], lambda a, b: mgr.NotEquals(a, b),
        lambda a, b: a != b)
    add('EqualsOrIff bv', [T, T], lambda a, b: mgr.EqualsOrIff(a, b),
        lambda a, b: a == b)
    for sign in (False, True):
        key = (lambda v: tc(v, w)) if sign else (lambda v: v)
        for n in (1, 2, 3):
            add('MinBV(%s)/%d' % (sign, n), [T] * n,
                lambda *a, sign=sign: mgr.MinBV(sign, *a) if len(a) > 1
                else mgr.MinBV(sign, list(a)),
                lambda *a, key=key: min(a, key=key))
            add('MaxBV(%s)/%d' % (sign, n), [T] * n,
                lambda *a, sign=sign: mgr.MaxBV(sign, list(a)),
                lambda *a, key=key: max(a, key=key))
    for n in (1, 2, 3) + ((4,) if w <= 2 else ()):
        add('BVAnd/%d' % n, [T] * n, lambda *a: mgr.BVAnd(*a) if len(a) > 1
            else mgr.BVAnd(list(a)),
            lambda *a: __import__('functools').reduce(
                lambda x, y: x & y, a))
        add('BVOr/%d' % n, [T] * n, lambda *a: mgr.BVOr(list(a)),
            lambda *a: __import__('functools').reduce(lambda x, y: x | y, a))
        add('BVAdd/%d' % n, [T] * n, lambda *a: mgr.BVAdd(list(a)),
            lambda *a: sum(a) % M_)
        add('BVMul/%d' % n, [T] * n, lambda *a: mgr.BVMul(*a) if len(a) > 1
            else mgr.BVMul(list(a)),
            lambda *a: __import__('functools').reduce(
                lambda x, y: x * y, a) % M_)
        add('AllDifferent bv/%d' % n, [T] * n,
            lambda *a: mgr.AllDifferent(list(a)),
            lambda *a: len(set(a)) == len(a))
        if n >= 2:
            def cat(*a):
                r = 0
                for v in a:
                    r = (r << w) | v
                return r
            add('BVConcat/%d' % n, [T] * n,
                lambda *a: mgr.BVConcat(*a), cat)
    for cnt in (1, 2, 3):
        def rep_(a, cnt=cnt):
            r = 0
            for _ in range(cnt):
                r = (r << w) | a
            return r
        add('BVRepeat %d' % cnt, [T], lambda a, cnt=cnt: mgr.BVRepeat(a, cnt),
            rep_)
        add('.BVRepeat %d' % cnt, [T], lambda a, cnt=cnt: a.BVRepeat(cnt),
            rep_)
    for k in range(0, w + 3):
        if k >= M_:
            continue
        add('BVLShl by %d' % k, [T], lambda a, k=k: mgr.BVLShl(a, k),
            lambda a, k=k: (a << k) % M_ if k < w else 0)
        add('BVLShr by %d' % k, [T], lambda a, k=k: mgr.BVLShr(a, k),
            lambda a, k=k: a >> k if k < w else 0)
        add('BVAShr by %d' % k, [T], lambda a, k=k: mgr.BVAShr(a, k),
            lambda a, k=k: (tc(a, w) >> min(k, w)) % M_)
        add('infix << %d' % k, [T], lambda a, k=k: a << k,
            lambda a, k=k: (a << k) % M_ if k < w else 0)
        add('infix >> %d' % k, [T], lambda a, k=k: a >> k,
            lambda a, k=k: a >> k if k < w else 0)
        add('.BVLShl(%d)' % k, [T], lambda a, k=k: a.BVLShl(k),
            lambda a, k=k: (a << k) % M_ if k < w else 0)
        add('.BVLShr(%d)' % k, [T], lambda a, k=k: a.BVLShr(k),
            lambda a, k=k: a >> k if k < w else 0)
        add('.BVAShr(%d)' % k, [T], lambda a, k=k: a.BVAShr(k),
            lambda a, k=k: (tc(a, w) >> min(k, w)) % M_)
    # infix on BV
    add('infix + bv', [T, T], lambda a, b: a + b, lambda a, b: (a + b) % M_)
    add('infix - bv', [T, T], lambda a, b: a - b, lambda a, b: (a - b) % M_)
    add('infix * bv', [T, T], lambda a, b: a * b, lambda a, b: (a * b) % M_)
    add('infix / bv', [T, T], lambda a, b: a / b,
        lambda a, b: M_ - 1 if b == 0 else a // b)
    add('infix % bv', [T, T], lambda a, b: a % b,
        lambda a, b: a if b == 0 else a % b)
    add('infix << bv', [T, T], lambda a, b: a << b,
        lambda a, b: (a << b) % M_ if b < w else 0)
    add('infix >> bv', [T, T], lambda a, b: a >> b,
        lambda a, b: a >> b if b < w else 0)
    add('infix & bv', [T, T], lambda a, b: a & b, lambda a, b: a & b)
    add('infix | bv', [T, T], lambda a, b: a | b, lambda a, b: a | b)
    add('infix ^ bv', [T, T], lambda a, b: a ^ b, lambda a, b: a ^ b)
    add('infix ~ bv', [T], lambda a: ~a, lambda a: (M_ - 1) ^ a)
    add('infix unary - bv', [T], lambda a: -a, lambda a: (-a) % M_)
    add('infix < bv', [T, T], lambda a, b: a < b, lambda a, b: a < b)
    add('infix <= bv', [T, T], lambda a, b: a <= b, lambda a, b: a <= b)
    add('infix > bv', [T, T], lambda a, b: a > b, lambda a, b: a > b)
    add('infix >= bv', [T, T], lambda a, b: a >= b, lambda a, b: a >= b)
    meth = {
        'BVAnd': lambda a, b: a & b, 'BVOr': lambda a, b: a | b,
        'BVXor': lambda a, b: a ^ b, 'BVAdd': lambda a, b: (a + b) % M_,
        'BVSub': lambda a, b: (a - b) % M_, 'BVMul': lambda a, b: (a * b) % M_,
        'BVUDiv': lambda a, b: M_ - 1 if b == 0 else a // b,
        'BVURem': lambda a, b: a if b == 0 else a % b,
        'BVLShl': lambda a, b: (a << b) % M_ if b < w else 0,
        'BVLShr': lambda a, b: a >> b if b < w else 0,
        'BVAShr': lambda a, b: (tc(a, w) >> min(b, w)) % M_,
        'BVNand': lambda a, b: (M_ - 1) ^ (a & b),
        'BVNor': lambda a, b: (M_ - 1) ^ (a | b),
        'BVXnor': lambda a, b: (M_ - 1) ^ (a ^ b),
        'BVULT': lambda a, b: a < b, 'BVULE': lambda a, b: a <= b,
        'BVUGT': lambda a, b: a > b, 'BVUGE': lambda a, b: a >= b,
        'BVSLT': lambda a, b: tc(a, w) < tc(b, w),
        'BVSLE': lambda a, b: tc(a, w) <= tc(b, w),
        'BVSGT': lambda a, b: tc(a, w) > tc(b, w),
        'BVSGE': lambda a, b: tc(a, w) >= tc(b, w),
        'BVComp': lambda a, b: 1 if a == b else 0,
        'BVConcat': lambda a, b: (a << w) | b,
        'Equals': lambda a, b: a == b, 'NotEquals': lambda a, b: a != b,
    }

    def sdiv(a, b):
        sa, sb = tc(a, w), tc(b, w)
        if sb == 0:
            return (M_ - 1) if sa >= 0 else 1
        q = abs(sa) // abs(sb)
        return (q if (sa < 0) == (sb < 0) else -q) % M_

    def srem(a, b):
        sa, sb = tc(a, w), tc(b, w)
        if sb == 0:
            return a
        r = abs(sa) % abs(sb)
        return (r if sa >= 0 else -r) % M_
    meth['BVSDiv'] = sdiv
    meth['BVSRem'] = srem
    for mname, py in sorted(meth.items()):
        add('.' + mname, [T, T],
            lambda a, b, mname=mname: getattr(a, mname)(b), py)
    # reflected / literal forms
    for c in sorted(set([0, 1, M_ - 1, 2 % M_])):
        add('infix x+%d bv' % c, [T], lambda a, c=c: a + c,
            lambda a, c=c: (a + c) % M_)
        add('infix %d+x bv' % c, [T], lambda a, c=c: c + a,
            lambda a, c=c: (a + c) % M_)
        add('infix x-%d bv' % c, [T], lambda a, c=c: a - c,
            lambda a, c=c: (a - c) % M_)
        add('infix %d-x bv' % c, [T], lambda a, c=c: c - a,
            lambda a, c=c: (c - a) % M_)
        add('infix %d*x bv' % c, [T], lambda a, c=c: c * a,
            lambda a, c=c: (a * c) % M_)
        add('infix %d&x bv' % c, [T], lambda a, c=c: c & a,
            lambda a, c=c: a & c)
        add('infix %d|x bv' % c, [T], lambda a, c=c: c | a,
            lambda a, c=c: a | c)
        add('infix %d^x bv' % c, [T], lambda a, c=c: c ^ a,
            lambda a, c=c: a ^ c)
        add('infix x<%d bv' % c, [T], lambda a, c=c: a < c,
            lambda a, c=c: a < c)
        add('infix x>=%d bv' % c, [T], lambda a, c=c: a >= c,
            lambda a, c=c: a >= c)
        add('infix x%%%d bv' % c, [T], lambda a, c=c: a % c,
            lambda a, c=c: a if c == 0 else a % c)
        add('.BVSLT(%d)' % c, [T], lambda a, c=c: a.BVSLT(c),
            lambda a, c=c: tc(a, w) < tc(c, w))
    for i in range(w):
        add('infix [%d]' % i, [T], lambda a, i=i: a[i],
            lambda a, i=i: (a >> i) & 1)
        for j in range(i, w):
            add('infix [%d:%d]' % (i, j), [T], lambda a, i=i, j=j: a[i:j],
                lambda a, i=i, j=j: (a >> i) & (2 ** (j - i + 1) - 1))
            add('.BVExtract(%d,%d)' % (i, j), [T],
                lambda a, i=i, j=j: a.BVExtract(i, j),
                lambda a, i=i, j=j: (a >> i) & (2 ** (j - i + 1) - 1))
    add('infix [:%d]' % (w - 1), [T], lambda a: a[:w - 1], lambda a: a)
    for k in range(0, w + 1):
        add('.BVRol(%d)' % k, [T], lambda a, k=k: a.BVRol(k),
            lambda a, k=k: ((a << (k % w)) | (a >> (w - k % w))) % M_)
        add('.BVRor(%d)' % k, [T], lambda a, k=k: a.BVRor(k),
            lambda a, k=k: ((a >> (k % w)) | (a << (w - k % w))) % M_)
    for inc in (0, 1, 2):
        add('.BVZExt(%d)' % inc, [T], lambda a, inc=inc: a.BVZExt(inc),
            lambda a: a)
        add('.BVSExt(%d)' % inc, [T], lambda a, inc=inc: a.BVSExt(inc),
            lambda a, inc=inc: tc(a, w) % 2 ** (w + inc))
    add('.Ite bv', [BOOL, T, T], lambda c, a, b: c.Ite(a, b),
        lambda c, a, b: a if c else b)
    return C


GRID_INT = list(range(-6, 7)) + [10 ** 20 + 1, -(10 ** 20) - 1]
GRID_REAL = [Fraction(v) for v in range(-3, 4)] + [
    Fraction(1, 2), Fraction(-7, 3), Fraction(5, 4), Fraction(10 ** 20 + 1, 3)]


def domain(t, rng, arity):
    if t == BOOL:
        return [False, True]
    if t[0] == 'BV':
        w = t[1]
        if w <= 8:
            return list(range(2 ** w))
        # wide vectors: boundary values and a few random ones
        m = 2 ** w
        vals = set([0, 1, 2, 3, m // 2 - 1, m // 2, m // 2 + 1, m - 2, m - 1,
                    w - 1, w, w + 1, 2 ** (w // 2)])
        while len(vals) < (18 if arity <= 2 else 8):
            vals.add(rng.randrange(m))
        return sorted(v for v in vals if 0 <= v < m)
    g = GRID_INT if t == INT else GRID_REAL
    if arity <= 2:
        return g
    return rng.sample(g, 5 if arity == 3 else 3) + [g[0]]


def run_case(rep, env, name, sorts, build, py, rng):
    mgr = env.formula_manager
    args = [mgr.Symbol('x%d_%s' % (i, G.sym_name(t)), B.to_pytype(t, env))
            for i, t in enumerate(sorts)]
    try:
        f = build(*args)
    except Exception as e:
        rep.violation('C06/raises/%s' % name.split(' [')[0],
                      '%s on symbols raised %r at %s' % (
                          name, e, common.tb_short(e)), {'case': name})
        return
    fb = B.describe(f)
    doms = [domain(t, rng, len(sorts)) for t in sorts]
    n = 0
    for vals in itertools.product(*doms):
        try:
            exp = py(*vals)
        except Skip:
            continue
        I = dict((a.symbol_name(), v) for a, v in zip(args, vals))
        try:
            got = R.evaluate(fb, I)
        except R.Unconstrained:
            continue
        n += 1
        if got != exp or (isinstance(exp, bool) != isinstance(got, bool)):
            rep.violation('C06/denotes/%s' % name.split(' [')[0],
                          '%s built %s; at %s it denotes %s, the named '
                          'function gives %s' % (
                              name, B.show(fb, 160), list(vals),
                              R.vrepr(got), R.vrepr(exp)), {'case': name})
            break
    # the same expression in two argument positions
    pairs = [(i, j) for i in range(len(sorts)) for j in range(i + 1,
                                                              len(sorts))
             if sorts[i] == sorts[j]]
    for (i, j) in pairs[:1] + pairs[-1:] if len(pairs) > 1 else pairs:
        args2 = list(args)
        args2[j] = args[i]
        try:
            f2 = build(*args2)
        except Exception as e:
            rep.violation('C06/raises/%s' % name.split(' [')[0],
                          '%s with one symbol in two positions raised %r '
                          'at %s' % (name, e, common.tb_short(e)),
                          {'case': name})
            continue
        fb2 = B.describe(f2)
        for vals in itertools.product(*doms):
            if vals[i] != vals[j]:
                continue
            try:
                exp = py(*vals)
            except Skip:
                continue
            I = dict((a.symbol_name(), v) for a, v in zip(args, vals))
            try:
                got = R.evaluate(fb2, I)
            except R.Unconstrained:
                continue
            n += 1
            rep.count('aliased_argument_tuples')
            if got != exp or (isinstance(exp, bool) != isinstance(got, bool)):
                rep.violation('C06/denotes/%s' % name.split(' [')[0],
                              '%s with one symbol in positions %d and %d '
                              'built %s; at %s it denotes %s, the named '
                              'function gives %s' % (
                                  name, i, j, B.show(fb2, 160), list(vals),
                                  R.vrepr(got), R.vrepr(exp)),
                              {'case': name})
                break
    rep.count('argument_tuples_evaluated', n)
    rep.case(key=name, sample='%s -> %s (%d argument tuples)' % (
        name, B.show(fb, 80), n) if hash(name) % 97 == 0 else None)


def sbv_cases(rep, env):
    mgr = env.formula_manager
    for w in (1, 2, 3, 4, 8):
        for v in range(-2 ** w - 1, 2 ** w + 2):
            ok = -2 ** (w - 1) <= v <= 2 ** (w - 1) - 1
            rep.case(key=('SBV', v, w))
            try:
                n = mgr.SBV(v, w)
            except Exception:
                if ok:
                    rep.violation('C06/raises/SBV',
                                  'SBV(%d,%d) raised' % (v, w))
                continue
            if not ok:
                rep.violation('C06/denotes/SBV-range',
                              'SBV(%d,%d) out of range returned %s' % (v, w,
                                                                        n))
            elif n.constant_value() != v % 2 ** w or n.bv_width() != w \
                    or n.bv_signed_value() != v:
                rep.violation('C06/denotes/SBV',
                              'SBV(%d,%d) = %s' % (v, w, n))
            rep.count('sbv_checked')
        if mgr.BVOne(w).constant_value() != 1 or \
                mgr.BVZero(w).constant_value() != 0 or \
                mgr.BVOne(w).bv_width() != w:
            rep.violation('C06/denotes/BVOne-BVZero', 'width %d' % w)


def misc_cases(rep, env):
    """call operator, Select/Store methods."""
    import pysmt.typing as T
    mgr = env.formula_manager
    f = mgr.Symbol('fun_ii', T.FunctionType(T.INT, [T.INT, T.REAL]))
    x = mgr.Symbol('cx', T.INT)
    y = mgr.Symbol('cy', T.REAL)
    r1 = f(x, y)
    if r1 is not mgr.Function(f, [x, y]):
        rep.violation('C06/denotes/call', 'f(x,y) is %s' % r1)
    r2 = f(3, 2)
    if r2 is not mgr.Function(f, [mgr.Int(3), mgr.Real(2)]):
        rep.violation('C06/denotes/call-literals', 'f(3,2) is %s' % r2)
    a = mgr.Symbol('arr_m', T.ArrayType(T.INT, T.INT))
    if a.Select(x) is not mgr.Select(a, x) or \
            a.Store(x, x) is not mgr.Store(a, x, x):
        rep.violation('C06/denotes/select-store-methods', 'differ')
    fb = B.describe(a.Store(x, mgr.Int(5)).Select(x))
    for xv in (0, 3):
        if R.evaluate(fb, {'arr_m': R.ArrV(INT, 0), 'cx': xv}) != 5:
            rep.violation('C06/denotes/select-store', 'a[x:=5][x] != 5')
    rep.count('misc_checked', 4)
    rep.case(key='misc')


def literal_sequences(rep):
    """Python literals that are close to, or compare equal to, each other,
    used one after the other as operands of infix operators in one
    environment: each term denotes the function of its own literal (a float
    stands for its exact binary value)."""
    import operator
    import pysmt.typing as T
    groups = [
        [0.3, Fraction(3, 10)], [1 / 3.0, Fraction(1, 3)],
        [2 ** 53, 2 ** 53 + 1, float(2 ** 53)],
        [Fraction(10 ** 20 + 1, 10 ** 20), 1, 1.0],
        [0.1, Fraction(1, 10), 0.1 + 1e-17, 0.1 + 2e-17],
        [1e23, 10 ** 23], [-0.0, 0, 0.0], [5e-324, 0],
        [Fraction(2, 3), 0.6666666666666666, 0.6666666666666667],
        [7, 7.0, Fraction(7), Fraction(14, 2)],
    ]
    ops = [('+', operator.add), ('-', operator.sub), ('*', operator.mul),
           ('<', operator.lt), ('>=', operator.ge),
           ('r+', lambda a, b: b + a), ('r*', lambda a, b: b * a),
           ('r-', lambda a, b: b - a)]
    for gi, grp in enumerate(groups):
        for order in (grp, list(reversed(grp))):
            env = common.fresh_env()
            mgr = env.formula_manager
            x = mgr.Symbol('lx', T.REAL)
            for (oname, op) in ops:
                for lit in order:
                    rep.count('literal_sequence_terms')
                    try:
                        f = op(x, lit)
                    except Exception as e:
                        rep.violation(
                            'C06/raises/infix-literal-sequence',
                            'x %s %r raised %r' % (oname, lit, e),
                            {'case': 'literal sequence %d' % gi})
                        continue
                    fb = B.describe(f)
                    for xv in (Fraction(0), Fraction(1), Fraction(-5, 7)):
                        exp = op(xv, Fraction(lit))
                        got = R.evaluate(fb, {'lx': xv})
                        if got != exp:
                            rep.violation(
                                'C06/denotes/infix-literal-sequence',
                                'x %s %r, built after the same with %r, is '
                                '%s: at x = %s it denotes %s, not %s' % (
                                    oname, lit, order[:order.index(lit)],
                                    B.show(fb, 100), xv, R.vrepr(got),
                                    R.vrepr(exp)),
                                {'case': 'literal sequence %d' % gi})
                            break
            rep.case(key=('literal-seq', gi, order is grp))


def run(rep):
    M.NODE_MONITOR.install()
    import pysmt.shortcuts as S
    rng = random.Random(rep.seed * 7 + 1)
    env = common.fresh_env()
    mgr = env.formula_manager
    allc = list(cases(mgr, S))
    widths = (1, 2, 3, 4, 16, 64) if rep.tier == 'quick' else \
        (1, 2, 3, 4, 5, 6, 7, 8, 13, 16, 32, 64, 65)
    for w in widths:
        for c in bv_cases(mgr, w):
            # exhaustive 3-ary and larger only on small widths (wide
            # vectors are sampled, every arity)
            if len(c[1]) >= 3 and 3 < w <= 8:
                continue
            if len(c[1]) >= 4 and 2 < w <= 8:
                continue
            allc.append(c)
    for i, (name, sorts, build, py) in enumerate(allc):
        if i % rep.nshards != rep.shard:
            continue
        if rep.only and rep.only not in name:
            continue
        if rep.out_of_time():
            rep.count('cases_skipped_out_of_time')
            continue
        run_case(rep, env, name, sorts, build, py, rng)
    if rep.shard == 0:
        sbv_cases(rep, env)
        misc_cases(rep, env)
    if rep.shard == 1 % rep.nshards:
        literal_sequences(rep)
    rep.count('cases_total', len(allc) if rep.shard == 0 else 0)


def replay(case, rep):
    rep.only = (case.get('case') or {}).get('case', '').split(' [')[0] or None
    rep.nshards, rep.shard = 1, 0
    run(rep)
