"""M1 - blueprints: solver-independent formula descriptions.

A blueprint is a nested immutable tuple ``(op, payload, kids)``.  Nothing in
the *typing* part of this module imports pySMT; ``build`` / ``describe`` are
the only bridge and use public constructors / structural accessors only.

Types are tuples:
  ('Bool',) ('Int',) ('Real',) ('String',) ('BV', w) ('Array', it, et)
  ('U', name)  ('Fun', ret, (p1, ..., pn))
"""
from fractions import Fraction

BOOL = ('Bool',)
INT = ('Int',)
REAL = ('Real',)
STRING = ('String',)


def BV(w):
    return ('BV', w)


def ARR(i, e):
    return ('Array', i, e)


def U(name):
    return ('U', name)


def FUN(ret, params):
    return ('Fun', ret, tuple(params))


class IllTyped(Exception):
    pass


# --------------------------------------------------------------------------
# blueprint constructors (thin helpers, no normalisation)
# --------------------------------------------------------------------------
def mk(op, payload=None, kids=()):
    return (op, payload, tuple(kids))


def Sym(name, ty=BOOL):
    return ('sym', (name, ty), ())


def App(fname, fty, args):
    return ('app', (fname, fty), tuple(args))


def Bool(v):
    return ('bool', bool(v), ())


def Int(v):
    return ('int', int(v), ())


def Real(v):
    return ('real', Fraction(v), ())


def Str(v):
    return ('str', v, ())


def BVc(v, w):
    return ('bv', (v, w), ())


def Q(kind, vars_, body):
    """kind in {'forall','exists'}; vars_ = tuple of (name, type)."""
    return (kind, tuple(vars_), (body,))


NARY_BOOL = ('and', 'or')
BV_BIN_SAME = ('bvand', 'bvor', 'bvxor', 'bvadd', 'bvsub', 'bvmul', 'bvudiv',
               'bvurem', 'bvshl', 'bvlshr', 'bvsdiv', 'bvsrem', 'bvashr')
BV_REL = ('bvult', 'bvule', 'bvslt', 'bvsle')
BV_UN = ('bvnot', 'bvneg')
STR_OPS = ('strlen', 'strconcat', 'strcontains', 'strindexof', 'strreplace',
           'strsubstr', 'strprefixof', 'strsuffixof', 'strtoint', 'inttostr',
           'strcharat')
ALL_OPS = (('forall', 'exists', 'and', 'or', 'not', 'implies', 'iff', 'sym',
            'app', 'real', 'bool', 'int', 'str', 'plus', 'minus', 'times',
            'le', 'lt', 'eq', 'ite', 'toreal', 'bv', 'concat', 'extract',
            'rol', 'ror', 'zext', 'sext', 'bvcomp', 'select', 'store',
            'arrayval', 'div', 'pow', 'bv2nat')
           + BV_BIN_SAME + BV_REL + BV_UN + STR_OPS)


# --------------------------------------------------------------------------
# typing (independent of pySMT)
# --------------------------------------------------------------------------
def typeof(bp, memo=None):
    """Type of a blueprint by the SMT-LIB signatures; raises IllTyped."""
    if memo is None:
        memo = {}
    k = id(bp)
    if k in memo:
        return memo[k][0]
    t = _typeof(bp, memo)
    memo[k] = (t, bp)
    return t


def _typeof(bp, memo):
    op, pl, kids = bp
    kt = [typeof(k, memo) for k in kids]

    def need(cond, msg=''):
        if not cond:
            raise IllTyped('%s: %s %s' % (op, msg, kt))

    if op == 'sym':
        return pl[1]
    if op == 'bool':
        return BOOL
    if op == 'int':
        return INT
    if op == 'real':
        return REAL
    if op == 'str':
        return STRING
    if op == 'bv':
        need(pl[1] >= 1 and 0 <= pl[0] < 2 ** pl[1], 'bv range')
        return BV(pl[1])
    if op in ('and', 'or'):
        need(all(t == BOOL for t in kt))
        return BOOL
    if op == 'not':
        need(len(kt) == 1 and kt[0] == BOOL)
        return BOOL
    if op in ('implies', 'iff'):
        need(len(kt) == 2 and kt[0] == BOOL and kt[1] == BOOL)
        return BOOL
    if op in ('forall', 'exists'):
        need(len(kt) == 1 and kt[0] == BOOL)
        need(len(pl) >= 1)
        for (_, vt) in pl:
            need(vt[0] != 'Fun', 'function-typed bound variable')
        return BOOL
    if op == 'app':
        fty = pl[1]
        need(fty[0] == 'Fun' and len(fty[2]) == len(kt) and len(kt) >= 1)
        need(tuple(kt) == tuple(fty[2]), 'param types')
        return fty[1]
    if op in ('plus', 'times'):
        need(len(kt) >= 2)
        need(kt[0] in (INT, REAL) and all(t == kt[0] for t in kt))
        return kt[0]
    if op in ('minus', 'div'):
        need(len(kt) == 2 and kt[0] in (INT, REAL) and kt[1] == kt[0])
        return kt[0]
    if op == 'pow':
        need(len(kt) == 2 and kt[0] in (INT, REAL) and kt[1] == kt[0])
        return REAL
    if op in ('le', 'lt'):
        need(len(kt) == 2 and kt[0] in (INT, REAL) and kt[1] == kt[0])
        return BOOL
    if op == 'eq':
        need(len(kt) == 2 and kt[0] == kt[1])
        need(kt[0] != BOOL and kt[0][0] != 'Fun', 'eq on bool/function')
        return BOOL
    if op == 'ite':
        need(len(kt) == 3 and kt[0] == BOOL and kt[1] == kt[2])
        need(kt[1][0] != 'Fun')
        return kt[1]
    if op == 'toreal':
        need(len(kt) == 1 and kt[0] == INT)
        return REAL
    if op in BV_UN:
        need(len(kt) == 1 and kt[0][0] == 'BV')
        return kt[0]
    if op in BV_BIN_SAME:
        need(len(kt) == 2 and kt[0][0] == 'BV' and kt[0] == kt[1])
        return kt[0]
    if op in BV_REL:
        need(len(kt) == 2 and kt[0][0] == 'BV' and kt[0] == kt[1])
        return BOOL
    if op == 'bvcomp':
        need(len(kt) == 2 and kt[0][0] == 'BV' and kt[0] == kt[1])
        return BV(1)
    if op == 'concat':
        need(len(kt) == 2 and kt[0][0] == 'BV' and kt[1][0] == 'BV')
        return BV(kt[0][1] + kt[1][1])
    if op == 'extract':
        need(len(kt) == 1 and kt[0][0] == 'BV')
        s, e = pl
        need(0 <= s <= e < kt[0][1], 'extract bounds')
        return BV(e - s + 1)
    if op in ('rol', 'ror'):
        need(len(kt) == 1 and kt[0][0] == 'BV')
        need(isinstance(pl, int) and 0 <= pl <= kt[0][1], 'rotation step')
        return kt[0]
    if op in ('zext', 'sext'):
        need(len(kt) == 1 and kt[0][0] == 'BV')
        need(isinstance(pl, int) and pl >= 0, 'extension')
        return BV(kt[0][1] + pl)
    if op == 'bv2nat':
        need(len(kt) == 1 and kt[0][0] == 'BV')
        return INT
    if op == 'strlen':
        need(kt == [STRING])
        return INT
    if op == 'strconcat':
        need(len(kt) >= 2 and all(t == STRING for t in kt))
        return STRING
    if op in ('strcontains', 'strprefixof', 'strsuffixof'):
        need(kt == [STRING, STRING])
        return BOOL
    if op == 'strindexof':
        need(kt == [STRING, STRING, INT])
        return INT
    if op == 'strreplace':
        need(kt == [STRING, STRING, STRING])
        return STRING
    if op == 'strsubstr':
        need(kt == [STRING, INT, INT])
        return STRING
    if op == 'strtoint':
        need(kt == [STRING])
        return INT
    if op == 'inttostr':
        need(kt == [INT])
        return STRING
    if op == 'strcharat':
        need(kt == [STRING, INT])
        return STRING
    if op == 'select':
        need(len(kt) == 2 and kt[0][0] == 'Array' and kt[0][1] == kt[1])
        return kt[0][2]
    if op == 'store':
        need(len(kt) == 3 and kt[0][0] == 'Array' and kt[0][1] == kt[1]
             and kt[0][2] == kt[2])
        return kt[0]
    if op == 'arrayval':
        need(len(kt) >= 1 and len(kt) % 2 == 1)
        for i, t in enumerate(kt[1:]):
            need(t == (pl if i % 2 == 0 else kt[0]), 'array value entry')
        return ARR(pl, kt[0])
    raise IllTyped('unknown op %r' % (op,))


def well_typed(bp):
    try:
        typeof(bp)
        return True
    except IllTyped:
        return False


# --------------------------------------------------------------------------
# structural helpers over blueprints
# --------------------------------------------------------------------------
def free_syms(bp, memo=None):
    """Set of (name, type) free in bp.  Function names count as symbols."""
    if memo is None:
        memo = {}
    k = id(bp)
    if k in memo:
        return memo[k][0]
    op, pl, kids = bp
    if op == 'sym':
        r = frozenset([pl])
    else:
        r = frozenset()
        for c in kids:
            r = r | free_syms(c, memo)
        if op == 'app':
            r = r | frozenset([pl])
        elif op in ('forall', 'exists'):
            r = r - frozenset(pl)
    memo[k] = (r, bp)
    return r


def subterms(bp, acc=None, seen=None):
    """All distinct sub-blueprints (by identity), post-order."""
    if acc is None:
        acc, seen = [], set()
    if id(bp) in seen:
        return acc
    seen.add(id(bp))
    for c in bp[2]:
        subterms(c, acc, seen)
    acc.append(bp)
    return acc


def size(bp):
    return len(subterms(bp))


def depth(bp, memo=None):
    if memo is None:
        memo = {}
    if id(bp) in memo:
        return memo[id(bp)]
    d = 1 + max([depth(c, memo) for c in bp[2]] or [0])
    memo[id(bp)] = d
    return d


def has_op(bp, ops):
    return any(s[0] in ops for s in subterms(bp))


def is_qf(bp):
    return not has_op(bp, ('forall', 'exists'))


def types_in(bp):
    out = set()
    memo = {}
    for s in subterms(bp):
        try:
            out.add(typeof(s, memo))
        except IllTyped:
            pass
        if s[0] in ('forall', 'exists'):
            for (_, t) in s[1]:
                out.add(t)
        if s[0] == 'app':
            out.add(s[1][1])
    return out


# --------------------------------------------------------------------------
# pySMT bridge
# --------------------------------------------------------------------------
def to_pytype(t, env=None):
    import pysmt.typing as T
    k = t[0]
    if k == 'Bool':
        return T.BOOL
    if k == 'Int':
        return T.INT
    if k == 'Real':
        return T.REAL
    if k == 'String':
        return T.STRING
    if k == 'BV':
        return T.BVType(t[1])
    if k == 'Array':
        return T.ArrayType(to_pytype(t[1], env), to_pytype(t[2], env))
    if k == 'U':
        if env is None:
            from pysmt.environment import get_env
            env = get_env()
        if len(t) > 2 and t[2]:
            decl = env.type_manager.Type(t[1], len(t[2]))
            return env.type_manager.get_type_instance(
                decl, *[to_pytype(a, env) for a in t[2]])
        return env.type_manager.Type(t[1], 0)
    if k == 'Fun':
        return T.FunctionType(to_pytype(t[1], env),
                              [to_pytype(p, env) for p in t[2]])
    raise ValueError(t)


def from_pytype(T_):
    if T_.is_bool_type():
        return BOOL
    if T_.is_int_type():
        return INT
    if T_.is_real_type():
        return REAL
    if T_.is_string_type():
        return STRING
    if T_.is_bv_type():
        return BV(T_.width)
    if T_.is_array_type():
        return ARR(from_pytype(T_.index_type), from_pytype(T_.elem_type))
    if T_.is_function_type():
        return FUN(from_pytype(T_.return_type),
                   [from_pytype(p) for p in T_.param_types])
    if T_.is_custom_type():
        if len(T_.args) == 0:
            return U(T_.basename)
        return ('U', T_.basename, tuple(from_pytype(a) for a in T_.args))
    raise ValueError(T_)


_BUILD_SIMPLE = {
    'not': 'Not', 'implies': 'Implies', 'iff': 'Iff', 'minus': 'Minus',
    'le': 'LE', 'lt': 'LT', 'eq': 'Equals', 'ite': 'Ite', 'toreal': 'ToReal',
    'div': 'Div', 'pow': 'Pow', 'bv2nat': 'BVToNatural',
    'bvnot': 'BVNot', 'bvneg': 'BVNeg', 'bvand': 'BVAnd', 'bvor': 'BVOr',
    'bvxor': 'BVXor', 'bvadd': 'BVAdd', 'bvsub': 'BVSub', 'bvmul': 'BVMul',
    'bvudiv': 'BVUDiv', 'bvurem': 'BVURem', 'bvshl': 'BVLShl',
    'bvlshr': 'BVLShr', 'bvsdiv': 'BVSDiv', 'bvsrem': 'BVSRem',
    'bvashr': 'BVAShr', 'bvult': 'BVULT', 'bvule': 'BVULE', 'bvslt': 'BVSLT',
    'bvsle': 'BVSLE', 'bvcomp': 'BVComp', 'concat': 'BVConcat',
    'strlen': 'StrLength', 'strcontains': 'StrContains',
    'strindexof': 'StrIndexOf', 'strreplace': 'StrReplace',
    'strsubstr': 'StrSubstr', 'strprefixof': 'StrPrefixOf',
    'strsuffixof': 'StrSuffixOf', 'strtoint': 'StrToInt',
    'inttostr': 'IntToStr', 'strcharat': 'StrCharAt', 'select': 'Select',
    'store': 'Store',
}


def build(bp, env=None, memo=None):
    """Realise a blueprint through the public FormulaManager constructors."""
    if env is None:
        from pysmt.environment import get_env
        env = get_env()
    if memo is None:
        memo = {}
    k = id(bp)
    if k in memo:
        return memo[k][0]
    r = _build(bp, env, memo)
    memo[k] = (r, bp)
    return r


def _build(bp, env, memo):
    mgr = env.formula_manager
    op, pl, kids = bp
    ks = [build(c, env, memo) for c in kids]
    if op == 'sym':
        return mgr.Symbol(pl[0], to_pytype(pl[1], env))
    if op == 'bool':
        return mgr.Bool(pl)
    if op == 'int':
        return mgr.Int(pl)
    if op == 'real':
        return mgr.Real(pl)
    if op == 'str':
        return mgr.String(pl)
    if op == 'bv':
        return mgr.BV(pl[0], pl[1])
    if op == 'and':
        return mgr.And(ks)
    if op == 'or':
        return mgr.Or(ks)
    if op == 'plus':
        return mgr.Plus(ks)
    if op == 'times':
        return mgr.Times(ks)
    if op == 'strconcat':
        return mgr.StrConcat(ks)
    if op in ('forall', 'exists'):
        vs = [mgr.Symbol(n, to_pytype(t, env)) for (n, t) in pl]
        return (mgr.ForAll if op == 'forall' else mgr.Exists)(vs, ks[0])
    if op == 'app':
        f = mgr.Symbol(pl[0], to_pytype(pl[1], env))
        return mgr.Function(f, ks)
    if op == 'extract':
        return mgr.BVExtract(ks[0], pl[0], pl[1])
    if op == 'rol':
        return mgr.BVRol(ks[0], pl)
    if op == 'ror':
        return mgr.BVRor(ks[0], pl)
    if op == 'zext':
        return mgr.BVZExt(ks[0], pl)
    if op == 'sext':
        return mgr.BVSExt(ks[0], pl)
    if op == 'arrayval':
        assign = dict(zip(ks[1::2], ks[2::2]))
        return mgr.Array(to_pytype(pl, env), ks[0], assign)
    return getattr(mgr, _BUILD_SIMPLE[op])(*ks)


_NT2OP = None


def _nt2op():
    global _NT2OP
    if _NT2OP is None:
        import pysmt.operators as o
        _NT2OP = {
            o.FORALL: 'forall', o.EXISTS: 'exists', o.AND: 'and', o.OR: 'or',
            o.NOT: 'not', o.IMPLIES: 'implies', o.IFF: 'iff',
            o.SYMBOL: 'sym', o.FUNCTION: 'app', o.REAL_CONSTANT: 'real',
            o.BOOL_CONSTANT: 'bool', o.INT_CONSTANT: 'int',
            o.STR_CONSTANT: 'str', o.PLUS: 'plus', o.MINUS: 'minus',
            o.TIMES: 'times', o.LE: 'le', o.LT: 'lt', o.EQUALS: 'eq',
            o.ITE: 'ite', o.TOREAL: 'toreal', o.BV_CONSTANT: 'bv',
            o.BV_NOT: 'bvnot', o.BV_AND: 'bvand', o.BV_OR: 'bvor',
            o.BV_XOR: 'bvxor', o.BV_CONCAT: 'concat',
            o.BV_EXTRACT: 'extract', o.BV_ULT: 'bvult', o.BV_ULE: 'bvule',
            o.BV_NEG: 'bvneg', o.BV_ADD: 'bvadd', o.BV_SUB: 'bvsub',
            o.BV_MUL: 'bvmul', o.BV_UDIV: 'bvudiv', o.BV_UREM: 'bvurem',
            o.BV_LSHL: 'bvshl', o.BV_LSHR: 'bvlshr', o.BV_ROL: 'rol',
            o.BV_ROR: 'ror', o.BV_ZEXT: 'zext', o.BV_SEXT: 'sext',
            o.BV_SLT: 'bvslt', o.BV_SLE: 'bvsle', o.BV_COMP: 'bvcomp',
            o.BV_SDIV: 'bvsdiv', o.BV_SREM: 'bvsrem', o.BV_ASHR: 'bvashr',
            o.STR_LENGTH: 'strlen', o.STR_CONCAT: 'strconcat',
            o.STR_CONTAINS: 'strcontains', o.STR_INDEXOF: 'strindexof',
            o.STR_REPLACE: 'strreplace', o.STR_SUBSTR: 'strsubstr',
            o.STR_PREFIXOF: 'strprefixof', o.STR_SUFFIXOF: 'strsuffixof',
            o.STR_TO_INT: 'strtoint', o.INT_TO_STR: 'inttostr',
            o.STR_CHARAT: 'strcharat', o.ARRAY_SELECT: 'select',
            o.ARRAY_STORE: 'store', o.ARRAY_VALUE: 'arrayval', o.DIV: 'div',
            o.POW: 'pow', o.BV_TONATURAL: 'bv2nat',
        }
    return _NT2OP


class Undescribable(Exception):
    pass


def describe(f, memo=None):
    """Read an FNode back into a blueprint using structural accessors only.

    Iterative (explicit stack) so that deep formulas do not recurse."""
    if memo is None:
        memo = {}
    tab = _nt2op()
    stack = [(f, False)]
    while stack:
        n, expanded = stack.pop()
        if n in memo:
            continue
        if not expanded:
            stack.append((n, True))
            for c in n.args():
                if c not in memo:
                    stack.append((c, False))
            continue
        kids = tuple(memo[c] for c in n.args())
        memo[n] = describe_shallow(n, kids)
    return memo[f]


def describe_shallow(n, kids):
    """Blueprint node for FNode n given the blueprints of its children."""
    tab = _nt2op()
    nt = n.node_type()
    if nt not in tab:
        raise Undescribable(nt)
    op = tab[nt]
    pl = None
    if op == 'sym':
        pl = (n.symbol_name(), from_pytype(n.symbol_type()))
    elif op in ('bool', 'int', 'str'):
        pl = n.constant_value()
        if op == 'int':
            pl = int(pl)
    elif op == 'real':
        v = n.constant_value()
        pl = Fraction(int(v.numerator), int(v.denominator))
    elif op == 'bv':
        pl = (int(n.constant_value()), n.bv_width())
    elif op in ('forall', 'exists'):
        pl = tuple((v.symbol_name(), from_pytype(v.symbol_type()))
                   for v in n.quantifier_vars())
    elif op == 'app':
        fn = n.function_name()
        pl = (fn.symbol_name(), from_pytype(fn.symbol_type()))
    elif op == 'extract':
        pl = (n.bv_extract_start(), n.bv_extract_end())
    elif op in ('rol', 'ror'):
        pl = n.bv_rotation_step()
    elif op in ('zext', 'sext'):
        pl = n.bv_extend_step()
    elif op == 'arrayval':
        pl = from_pytype(n.array_value_index_type())
    return (op, pl, tuple(kids))


def show(bp, maxlen=400):
    """Compact printable form (for evidence samples and replay files)."""
    def go(b):
        op, pl, kids = b
        if op == 'sym':
            return pl[0]
        if op in ('bool', 'int', 'str'):
            return repr(pl)
        if op == 'real':
            return '%sr' % (pl,)
        if op == 'bv':
            return '%d_%d' % pl
        hd = op
        if op in ('forall', 'exists'):
            hd = '%s[%s]' % (op, ','.join(n for n, _ in pl))
        elif op == 'app':
            hd = pl[0]
        elif pl is not None:
            hd = '%s%s' % (op, list(pl) if isinstance(pl, tuple) else [pl])
        return '%s(%s)' % (hd, ', '.join(go(k) for k in kids))
    s = go(bp)
    return s if len(s) <= maxlen else s[:maxlen] + '...'


def to_json(bp):
    """JSON-serialisable form of a blueprint (for replay files)."""
    def pj(p):
        if isinstance(p, Fraction):
            return {'frac': [p.numerator, p.denominator]}
        if isinstance(p, tuple):
            return {'tup': [pj(x) for x in p]}
        return p
    op, pl, kids = bp
    return [op, pj(pl), [to_json(k) for k in kids]]


def from_json(j):
    def pj(p):
        if isinstance(p, dict):
            if 'frac' in p:
                return Fraction(p['frac'][0], p['frac'][1])
            return tuple(pj(x) for x in p['tup'])
        return p
    return (j[0], pj(j[1]), tuple(from_json(k) for k in j[2]))
