"""C11 - CNF conversion and Ackermannization, model by model."""
import itertools
import random
import warnings

from . import bp as B
from . import gen as G
from . import judge as J
from . import monitors as M
from . import common
from . import refeval as R
from .c04 import canon

PROP = 'C11'
CONN = ('and', 'or', 'not', 'implies', 'iff')


def is_atom(b, tm):
    if b[0] in CONN or b[0] in ('forall', 'exists'):
        return False
    if b[0] == 'ite' and B.typeof(b, tm) == B.BOOL:
        return False
    return B.typeof(b, tm) == B.BOOL


def as_literal(b, tm):
    """-> (atom, sign) or None"""
    if b[0] == 'not':
        # a negated Boolean constant is accepted as a (degenerate) literal
        if is_atom(b[2][0], tm):
            return (b[2][0], False)
        return None
    if is_atom(b, tm):
        return (b, True)
    return None


def clauses_of_formula(b, tm):
    """Read `b` as a conjunction of clauses of literals; None if it is not."""
    if b[0] == 'bool':
        return [] if b[1] else [[]]
    conj = list(b[2]) if b[0] == 'and' else [b]
    out = []
    for c in conj:
        lits = list(c[2]) if c[0] == 'or' else [c]
        cl = []
        for l in lits:
            lit = as_literal(l, tm)
            if lit is None:
                return None
            cl.append(lit)
        out.append(cl)
    return out


def dpll(clauses, nvars):
    """clauses: list of lists of (var, sign); returns True iff satisfiable."""
    def simplify(cls, var, val):
        out = []
        for c in cls:
            sat = False
            nc = []
            for (v, s) in c:
                if v == var:
                    if s == val:
                        sat = True
                        break
                else:
                    nc.append((v, s))
            if sat:
                continue
            if not nc:
                return None
            out.append(nc)
        return out

    def go(cls):
        while True:
            unit = None
            for c in cls:
                if len(c) == 1:
                    unit = c[0]
                    break
            if unit is None:
                break
            cls = simplify(cls, unit[0], unit[1])
            if cls is None:
                return False
        if not cls:
            return True
        v = cls[0][0][0]
        for val in (True, False):
            n = simplify(cls, v, val)
            if n is not None and go(n):
                return True
        return False
    for c in clauses:
        if not c:
            return False
    return go([list(c) for c in clauses])


class Checker(object):
    def __init__(self, rep):
        self.rep = rep
        self.rng = random.Random(rep.seed * 67867967 + rep.shard)
        self.sb = J.ShrinkBudget(rep, 25)
        self.reused = {}

    # ------------------------------------------------------------------ CNF
    def cnf_once(self, proc, b):
        from pysmt.environment import get_env
        from pysmt import rewritings as RW
        env = get_env()
        try:
            f = B.build(b, env)
        except Exception as e:
            return 'build', repr(e)
        fb = canon(B.describe(f))
        tm = {}
        if B.typeof(fb, tm) != B.BOOL:
            return 'build', 'not boolean'
        orig_syms = set(B.free_syms(fb))
        try:
            with warnings.catch_warnings():
                warnings.simplefilter('ignore')
                if proc == 'cnf':
                    r = RW.cnf(f, env)
                    clset = None
                elif proc == 'cnf_as_set':
                    clset = RW.cnf_as_set(f, env)
                    r = None
                elif proc == 'CNFizer.convert_as_formula':
                    r = RW.CNFizer(env).convert_as_formula(f)
                    clset = None
                elif proc == 'PolarityCNFizer.convert_as_formula':
                    r = RW.PolarityCNFizer(env).convert_as_formula(f)
                    clset = None
                elif proc == 'PolarityCNFizer.convert':
                    clset = RW.PolarityCNFizer(env).convert(f)
                    r = None
                elif proc in ('CNFizer.reused', 'PolarityCNFizer.reused'):
                    # one converter object for all formulas of this
                    # environment (state carried across conversions)
                    inst = self.reused.get((id(env), proc))
                    if inst is None:
                        cls_ = RW.CNFizer if proc == 'CNFizer.reused' \
                            else RW.PolarityCNFizer
                        inst = cls_(env)
                        self.reused.clear()
                        self.reused[(id(env), proc)] = inst
                        self.keep_env = env
                    r = inst.convert_as_formula(f)
                    clset = None
                else:
                    raise ValueError(proc)
        except Exception as e:
            return 'exc:' + common.exc_name(e), '%s(%s) raised %r at %s' % (
                proc, B.show(fb, 150), e, common.tb_short(e))
        tm2 = {}
        if r is not None:
            rb = canon(B.describe(r))
            cls = clauses_of_formula(rb, tm2)
            if cls is None:
                return 'shape', '%s(%s) = %s is not a conjunction of clauses' \
                    ' of literals' % (proc, B.show(fb, 150), B.show(rb, 200))
            shown = B.show(rb, 200)
        else:
            cls = []
            for clause in clset:
                cl = []
                for l in clause:
                    lit = as_literal(canon(B.describe(l)), tm2)
                    if lit is None:
                        return 'shape', '%s(%s): %s is not a literal' % (
                            proc, B.show(fb, 150), l)
                    cl.append(lit)
                cls.append(cl)
            shown = str(sorted(str(sorted(map(str, c))) for c in clset))[:200]
        self.rep.count('shapes_checked')
        # atoms: original-symbol atoms vs fresh Boolean symbols
        fresh = {}
        atoms = {}
        for cl in cls:
            for (a, s) in cl:
                fs = set(B.free_syms(a))
                if a[0] == 'sym' and a[1] not in orig_syms:
                    fresh.setdefault(a, len(fresh))
                elif fs <= orig_syms:
                    atoms.setdefault(a, len(atoms))
                else:
                    return 'shape', '%s(%s): literal %s mixes fresh and ' \
                        'original symbols' % (proc, B.show(fb, 150),
                                              B.show(a, 80))
        if len(fresh) > 40:
            return 'build', 'too many fresh symbols'
        # all / sampled interpretations of the original symbols
        nI = 0
        for I in R.interpretations(orig_syms, self.rng, n_samples=24,
                                   limit=256, seed=self.rep.seed):
            try:
                fv = R.evaluate(fb, I)
                av = {a: R.evaluate(a, I) for a in atoms}
            except R.Unconstrained:
                continue
            nI += 1
            residual = []
            for cl in cls:
                sat = False
                nc = []
                for (a, s) in cl:
                    if a in fresh:
                        nc.append((fresh[a], s))
                    elif av[a] == s:
                        sat = True
                        break
                if not sat:
                    residual.append(nc)
            ext = dpll(residual, len(fresh))
            if fv and not ext:
                return 'model-lost', (
                    '%s(%s) = %s: %s satisfies the input but no value of the '
                    'fresh symbols satisfies the output' % (
                        proc, B.show(fb, 150), shown,
                        {k: R.vrepr(v) for k, v in I.items()}))
            if ext and not fv:
                return 'model-gained', (
                    '%s(%s) = %s: an extension of %s satisfies the output '
                    'but the input is false' % (
                        proc, B.show(fb, 150), shown,
                        {k: R.vrepr(v) for k, v in I.items()}))
        if nI:
            self.rep.count('cnf_compared')
            self.rep.count('cnf_interpretations', nI)
            self.rep.count('proc_' + proc.split('.')[0])
            self.rep.count('fresh_symbols', len(fresh))
        return None, None

    # ----------------------------------------------------------- Ackermann
    def ack_once(self, b, reuse=False):
        from pysmt.environment import get_env
        from pysmt import rewritings as RW
        env = get_env()
        try:
            f = B.build(b, env)
        except Exception as e:
            return 'build', repr(e)
        fb = canon(B.describe(f))
        if B.typeof(fb) != B.BOOL:
            return 'build', 'not boolean'
        try:
            if reuse:
                ack = self.reused.get((id(env), 'ack'))
                if ack is None:
                    ack = RW.Ackermannizer(env)
                    self.reused.clear()
                    self.reused[(id(env), 'ack')] = ack
                    self.keep_env = env
            else:
                ack = RW.Ackermannizer(env)
            r = ack.do_ackermannization(f)
            t2c = ack.get_term_to_const_dict()
        except Exception as e:
            return 'exc:' + common.exc_name(e), 'ackermannize(%s) raised %r ' \
                'at %s' % (B.show(fb, 150), e, common.tb_short(e))
        rb = canon(B.describe(r))
        if B.has_op(rb, ('app',)):
            return 'shape', 'ackermannize(%s) = %s still contains an ' \
                'application' % (B.show(fb, 150), B.show(rb, 200))
        self.rep.count('shapes_checked')
        orig = set(B.free_syms(fb))
        funs = sorted(s for s in orig if s[1][0] == 'Fun')
        plain = sorted(s for s in orig if s[1][0] != 'Fun')
        out_syms = set(B.free_syms(rb))
        fresh = sorted(out_syms - orig)
        apps = {}
        for k, v in t2c.items():
            apps[canon(B.describe(k))] = (v.symbol_name(),
                                          B.from_pytype(v.symbol_type()))
        # ---- direction 1: I |= f  =>  canonical extension satisfies output
        tables = {}
        for (fn, fty) in funs:
            doms = [R.all_values(p, 16) for p in fty[2]]
            rng_ = R.all_values(fty[1], 16)
            if any(d is None for d in doms) or rng_ is None:
                return 'build', 'function domain too large'
            points = list(itertools.product(*doms))
            if len(rng_) ** len(points) > 256:
                return 'build', 'function space too large'
            tables[(fn, fty)] = (points, rng_)
        if R.interp_space(plain, 512) is None:
            return 'build', 'symbol space too large'

        def fun_interps():
            spaces = []
            for key in funs:
                points, rng_ = tables[key]
                spaces.append([dict(zip(points, vals)) for vals in
                               itertools.product(rng_, repeat=len(points))])
            for combo in itertools.product(*spaces):
                yield {key[0]: R.FunV(key[0], key[1], table=t)
                       for key, t in zip(funs, combo)}

        allF = list(fun_interps())
        if len(allF) > 1024:
            allF = self.rng.sample(allF, 1024)
        n1 = 0
        for I0 in R.interpretations(plain, self.rng, limit=512):
            for F in (allF if len(allF) <= 64 else
                      self.rng.sample(allF, 64)):
                I = dict(I0)
                I.update(F)
                try:
                    fv = R.evaluate(fb, I)
                except R.Unconstrained:
                    continue
                if not fv:
                    continue
                Iext = dict(I0)
                try:
                    for a, (cn, ct) in apps.items():
                        Iext[cn] = R.evaluate(a, I)
                    for s in fresh:
                        if s[0] not in Iext:
                            Iext[s[0]] = R.corner_values(s[1])[0]
                    ov = R.evaluate(rb, Iext)
                except (R.Unconstrained, R.EvalError):
                    continue
                n1 += 1
                if not ov:
                    return 'model-lost', (
                        'ackermannize(%s) = %s: a model of the input (%s) '
                        'extended with the values of the eliminated '
                        'applications falsifies the output' % (
                            B.show(fb, 150), B.show(rb, 200),
                            {k: R.vrepr(v) for k, v in I0.items()}))
        # ---- direction 2: J |= output  =>  some F with J|orig + F |= f
        n2 = 0
        jsyms = sorted(set(plain) | set(fresh))
        if R.interp_space(jsyms, 4096) is not None:
            for Jn in R.interpretations(jsyms, self.rng, limit=4096):
                try:
                    if not R.evaluate(rb, Jn):
                        continue
                except (R.Unconstrained, R.EvalError):
                    continue
                n2 += 1
                J0 = {k[0]: Jn[k[0]] for k in plain}
                found = False
                for F in allF:
                    I = dict(J0)
                    I.update(F)
                    try:
                        if R.evaluate(fb, I):
                            found = True
                            break
                    except R.Unconstrained:
                        found = True
                        break
                if not found:
                    return 'model-gained', (
                        'ackermannize(%s) = %s: %s satisfies the output but '
                        'no interpretation of %s makes the input true' % (
                            B.show(fb, 150), B.show(rb, 200),
                            {k: R.vrepr(v) for k, v in Jn.items()},
                            [f_[0] for f_ in funs]))
        if n1 or n2:
            self.rep.count('ack_compared')
            self.rep.count('ack_models_forward', n1)
            self.rep.count('ack_models_backward', n2)
        return None, None

    def check(self, proc, b, j):
        rep = self.rep
        if proc == 'ackermann.reused':
            once = lambda x: self.ack_once(x, reuse=True)
        else:
            once = (self.ack_once if proc == 'ackermann'
                    else (lambda x: self.cnf_once(proc, x)))
        kind, info = once(b)
        rep.case(key=hash((proc, b)), sample='%s: %s' % (proc, B.show(b, 120))
                 if j % 301 == 0 else None)
        if kind is None:
            return
        if kind == 'build':
            rep.count('build_rejected_or_outside_fragment')
            return

        if proc.endswith('.reused'):
            # the converter object carries state: no re-runs for shrinking
            rep.violation('%s/%s/%s' % (PROP, proc, kind), '%s: %s (the '
                          'same converter object had converted other '
                          'formulas before)' % (kind, info),
                          {'bp': B.to_json(b), 'proc': proc, 'kind': kind})
            return

        def fails(x):
            return once(x)[0] == kind
        key, m = self.sb.classify(PROP, proc, kind, b, fails)
        what = info
        if m is not None and m is not b:
            what = 'minimal: %s' % (once(m)[1],)
        rep.violation(key, '%s: %s' % (kind, what), {
            'bp': B.to_json(m if m is not None else b), 'proc': proc,
            'kind': kind})


def cnf_formula(rng):
    """QF Boolean structure over a few atoms (Bool symbols, BV1/BV2/Int
    relations, Boolean functions), with constants in every position."""
    p = [B.Sym('p%d' % i, B.BOOL) for i in range(3)]
    b1 = [B.Sym('b1_%d' % i, B.BV(1)) for i in range(2)]
    b2 = [B.Sym('b2_%d' % i, B.BV(2)) for i in range(2)]
    atoms = list(p) + [
        ('eq', None, (b1[0], b1[1])), ('bvult', None, (b2[0], b2[1])),
        ('eq', None, (b2[0], B.BVc(1, 2))),
        ('bvule', None, (b2[1], B.BVc(2, 2))),
        B.App('fb', B.FUN(B.BOOL, (B.BV(1),)), (b1[0],)),
        ('eq', None, (('ite', None, (p[0], b1[0], b1[1])), B.BVc(1, 1))),
        # a Boolean-valued select is an atom too
        ('select', None, (B.Sym('ab1', B.ARR(B.BV(1), B.BOOL)), b1[0])),
    ]
    # arithmetic atoms in the shapes the simplifier rewrites (negative
    # literals are built as Not(a).simplify() by the converters)
    i0, i1 = B.Sym('i0', B.INT), B.Sym('i1', B.INT)
    if rng.random() < 0.4:
        atoms += [('le', None, (('minus', None, (i0, i1)), B.Int(0))),
                  ('le', None, (i0, i1)),
                  ('lt', None, (('minus', None, (i1, i0)), B.Int(0))),
                  ('le', None, (B.Int(0), ('minus', None, (i0, i1)))),
                  ('eq', None, (('plus', None, (i0, B.Int(1))), i1))]
    # bit-vector relations against every small constant, both sides
    # (boundary rules of the simplifier: u< 0, u<= max, s< min ...)
    if rng.random() < 0.4:
        rel = rng.choice(['bvult', 'bvule', 'bvslt', 'bvsle'])
        c = rng.randrange(4)
        x = ('bvadd', None, (b2[0], b2[1])) if rng.random() < 0.3 else b2[0]
        atoms += [(rel, None, (x, B.BVc(c, 2))),
                  (rel, None, (B.BVc(c, 2), x)),
                  (rel, None, (b1[0], B.BVc(c % 2, 1))),
                  (rel, None, (B.BVc(c % 2, 1), b1[1]))]
    pool = []

    def go(d):
        if pool and rng.random() < 0.25:
            return rng.choice(pool)
        r = rng.random()
        if d <= 0 or r < 0.2:
            if rng.random() < 0.12:
                x = B.Bool(rng.random() < 0.5)
            else:
                x = rng.choice(atoms)
        else:
            op = rng.choice(['and', 'or', 'not', 'implies', 'iff', 'ite',
                             'and', 'or', 'not'])
            if op in ('and', 'or'):
                x = (op, None, tuple(go(d - 1)
                                     for _ in range(rng.randint(2, 3))))
            elif op == 'not':
                x = ('not', None, (go(d - 1),))
            elif op == 'ite':
                x = ('ite', None, (go(d - 1), go(d - 1), go(d - 1)))
            else:
                x = (op, None, (go(d - 1), go(d - 1)))
        pool.append(x)
        return x
    return go(rng.randint(1, 4))


def ack_formula(rng):
    FB = B.FUN(B.BV(1), (B.BV(1),))
    GB = B.FUN(B.BOOL, (B.BV(1), B.BOOL))
    HB = B.FUN(B.BOOL, (B.BOOL,))
    KB = B.FUN(B.BV(1), (B.BV(1), B.BV(1)))
    funs = rng.sample([('f', FB), ('g', GB), ('h', HB), ('k', KB)],
                      rng.randint(1, 2))
    bs = [B.Sym('b1_%d' % i, B.BV(1)) for i in range(2)]
    ps = [B.Sym('p%d' % i, B.BOOL) for i in range(2)]

    def term(t, d):
        cands = [(n, ft) for (n, ft) in funs if ft[1] == t]
        r = rng.random()
        if d > 0 and cands and r < 0.55:
            n, ft = rng.choice(cands)
            return B.App(n, ft, [term(pt, d - 1) for pt in ft[2]])
        if t == B.BOOL:
            if d > 0 and r < 0.8:
                op = rng.choice(['and', 'or', 'not', 'eqb', 'iff', 'implies'])
                if op == 'not':
                    return ('not', None, (term(B.BOOL, d - 1),))
                if op == 'eqb':
                    return ('eq', None, (term(B.BV(1), d - 1),
                                         term(B.BV(1), d - 1)))
                if op in ('iff', 'implies'):
                    return (op, None, (term(B.BOOL, d - 1),
                                       term(B.BOOL, d - 1)))
                return (op, None, (term(B.BOOL, d - 1), term(B.BOOL, d - 1)))
            return rng.choice(ps + [B.Bool(True)])
        if d > 0 and r < 0.8:
            op = rng.choice(['bvnot', 'bvadd', 'ite', 'bvand'])
            if op == 'bvnot':
                return ('bvnot', None, (term(t, d - 1),))
            if op == 'ite':
                return ('ite', None, (term(B.BOOL, d - 1), term(t, d - 1),
                                      term(t, d - 1)))
            return (op, None, (term(t, d - 1), term(t, d - 1)))
        return rng.choice(bs + [B.BVc(1, 1)])
    return term(B.BOOL, rng.randint(2, 4))


def special():
    p, q, r_ = (B.Sym('p0', B.BOOL), B.Sym('p1', B.BOOL), B.Sym('p2', B.BOOL))
    T, F = B.Bool(True), B.Bool(False)
    N = lambda x: ('not', None, (x,))
    A = lambda *a: ('and', None, a)
    O = lambda *a: ('or', None, a)
    out = [A(F, p), A(p, F), A(T, p), O(F, p), O(T, p), A(p, N(p)),
           O(p, N(p)), A(A(p, q), F), O(A(p, F), q), N(A(T, p)),
           ('implies', None, (T, p)), ('implies', None, (p, F)),
           ('iff', None, (p, F)), ('iff', None, (T, T)), ('iff', None, (T, F)),
           ('ite', None, (T, p, q)), ('ite', None, (p, T, F)),
           ('ite', None, (p, F, F)), A(O(p, q), N(O(p, q))),
           ('iff', None, (N(A(p, q)), r_)), ('ite', None, (N(A(p, q)), r_, p)),
           A(N(A(p, q)), O(A(p, q), r_)), T, F, p, N(p), N(N(p)),
           ('iff', None, (A(p, q), A(p, q))),
           ('implies', None, (A(p, q), A(p, q)))]
    return out


def special_fresh_names():
    """User symbols that look like the converters' fresh names (FV0, FV1,
    ...): each is converted in a brand-new environment, where the fresh-name
    counter starts at 0."""
    p = B.Sym('p0', B.BOOL)
    N = lambda x: ('not', None, (x,))
    A = lambda *a: ('and', None, a)
    O = lambda *a: ('or', None, a)
    fv = [B.Sym('FV%d' % i, B.BOOL) for i in range(6)]
    return [O(A(fv[0], fv[1]), A(fv[2], p)),
            ('iff', None, (A(fv[0], fv[1]), O(fv[1], fv[2]))),
            ('ite', None, (A(fv[0], fv[2]), fv[1], N(A(fv[3], fv[4])))),
            N(O(A(fv[1], fv[0]), A(fv[0], N(fv[2])), A(fv[3], fv[5]))),
            O(A(fv[1], fv[2]), A(fv[3], p))]


def special_ack():
    FB = B.FUN(B.BV(1), (B.BV(1),))
    x, y, z = (B.Sym('b1_0', B.BV(1)), B.Sym('b1_1', B.BV(1)),
               B.Sym('b1_2', B.BV(1)))
    f = lambda a: B.App('f', FB, (a,))
    eq = lambda a, b: ('eq', None, (a, b))
    N = lambda a: ('not', None, (a,))
    out = [
        ('and', None, (eq(x, y), N(eq(f(x), f(y))))),
        ('or', None, (('and', None, (eq(x, y), N(eq(f(x), f(y))))),
                      ('and', None, (eq(y, z), N(eq(f(y), f(z))))),
                      ('and', None, (eq(x, z), N(eq(f(x), f(z))))))),
        eq(f(f(x)), x), N(eq(f(f(f(x))), f(x))),
        eq(f(('bvadd', None, (f(x), B.BVc(1, 1)))), y),
        ('and', None, (eq(f(('bvnot', None, (f(x),))), y),
                       N(eq(f(('bvnot', None, (f(x),))), y)))),
        eq(f(('ite', None, (eq(f(x), y), x, y))), x),
    ]
    # several function symbols, some applied once only, in every position
    # relative to the one whose consistency decides the verdict
    h = lambda a: B.App('h', FB, (a,))
    k = lambda a: B.App('k', FB, (a,))
    core = [eq(x, y), N(eq(f(x), f(y)))]
    for once in ([eq(h(x), z)], [eq(h(z), z), eq(k(y), x)],
                 [eq(h(k(x)), z)], [eq(h(f(x)), z)]):
        for pos in range(3):
            cj = list(core)
            for o in once:
                cj.insert(pos, o)
            out.append(('and', None, tuple(cj)))
            out.append(('not', None, (('or', None, tuple(
                N(c) for c in cj)),)))
    out.append(('and', None, (eq(x, y), N(eq(f(h(x)), f(h(y)))))))
    out.append(('and', None, (eq(h(x), h(y)), N(eq(f(h(x)), f(h(y)))),
                              eq(k(x), z))))
    out.append(('and', None, (eq(k(x), z), eq(x, y),
                              N(eq(h(f(x)), h(f(y)))))))
    return out


def special_ack_fresh_names():
    """User symbols that look like Ackermann constants (ack0, ack1, ...),
    each formula in a brand-new environment."""
    FB = B.FUN(B.BV(1), (B.BV(1),))
    x = B.Sym('b1_0', B.BV(1))
    f = lambda a: B.App('f', FB, (a,))
    eq = lambda a, b: ('eq', None, (a, b))
    N = lambda a: ('not', None, (a,))
    ak = [B.Sym('ack%d' % i, B.BV(1)) for i in range(4)]
    return [
        ('and', None, (eq(ak[0], ak[1]), N(eq(f(ak[0]), f(ak[1]))))),
        ('and', None, (eq(f(ak[0]), ak[1]), eq(f(ak[1]), ak[2]),
                       N(eq(f(f(ak[0])), ak[2])))),
        ('or', None, (eq(f(x), ak[0]), eq(f(ak[1]), ak[2]),
                      N(eq(ak[3], f(ak[3]))))),
        ('and', None, (eq(ak[1], ak[2]), N(eq(f(ak[1]), f(ak[2]))))),
    ]


def run(rep):
    M.NODE_MONITOR.install()
    ck = Checker(rep)
    rng = ck.rng
    quick = rep.tier == 'quick'
    common.fresh_env()
    j = 0
    procs = ['cnf', 'cnf_as_set', 'CNFizer.convert_as_formula',
             'PolarityCNFizer.convert_as_formula', 'PolarityCNFizer.convert']

    def want(p):
        return not rep.only or rep.only == p

    if rep.shard == 0:
        for b in special():
            for proc in procs:
                if want(proc):
                    ck.check(proc, b, j)
                    j += 1
        for b in special_ack():
            if want('ackermann'):
                ck.check('ackermann', b, j)
                j += 1
        for b in special_fresh_names():
            for proc in procs:
                if want(proc):
                    common.fresh_env()
                    ck.check(proc, b, j)
                    j += 1
        for b in special_ack_fresh_names():
            if want('ackermann'):
                common.fresh_env()
                ck.check('ackermann', b, j)
                j += 1
        # converter objects used for several formulas in a row
        common.fresh_env()
        pa, pb_, pc = (B.Sym('p0', B.BOOL), B.Sym('p1', B.BOOL),
                       B.Sym('p2', B.BOOL))
        ab = ('and', None, (pa, pb_))
        seq = [('or', None, (ab, pc)), ('iff', None, (ab, pc)),
               ('not', None, (('or', None, (ab, pc)),)),
               ('ite', None, (ab, pc, ('not', None, (pc,)))),
               ('implies', None, (pc, ab)), ('iff', None, (pc, ('not', None,
                                                                (ab,))))]
        for proc in ('CNFizer.reused', 'PolarityCNFizer.reused'):
            if want(proc):
                for b in seq + seq[::-1]:
                    ck.check(proc, b, j)
                    j += 1
        common.fresh_env()
        FB = B.FUN(B.BV(1), (B.BV(1),))
        x_, y_, z_ = (B.Sym('b1_0', B.BV(1)), B.Sym('b1_1', B.BV(1)),
                      B.Sym('b1_2', B.BV(1)))
        fa = lambda a: B.App('f', FB, (a,))
        eq_ = lambda a, b: ('eq', None, (a, b))
        aseq = [eq_(fa(x_), x_),
                ('and', None, (eq_(x_, z_), ('not', None, (
                    eq_(fa(x_), fa(z_)),)))),
                ('and', None, (eq_(y_, z_), ('not', None, (
                    eq_(fa(y_), fa(z_)),)))),
                eq_(fa(fa(y_)), x_)]
        if want('ackermann.reused'):
            for b in aseq + aseq[::-1]:
                ck.check('ackermann.reused', b, j)
                j += 1
        common.fresh_env()
    n = 250 if quick else 40000
    rep.share(0.6)
    for k in range(n):
        if rep.out_of_time():
            rep.notes.append('cnf workload truncated at %d' % k)
            break
        if k % 100 == 0:
            common.fresh_env()
        b = cnf_formula(rng)
        for proc in procs + (['CNFizer.reused', 'PolarityCNFizer.reused']
                             if k % 3 == 0 else []):
            if want(proc):
                ck.check(proc, b, j)
                j += 1
    n = 120 if quick else 20000
    rep.share(1.0)
    for k in range(n):
        if rep.out_of_time():
            rep.notes.append('ackermann workload truncated at %d' % k)
            break
        if k % 100 == 0:
            common.fresh_env()
        if want('ackermann'):
            ck.check('ackermann', ack_formula(rng), j)
            j += 1
        if k % 3 == 0 and want('ackermann.reused'):
            ck.check('ackermann.reused', ack_formula(rng), j)
            j += 1


def replay(case, rep):
    common.fresh_env()
    ck = Checker(rep)
    c = case['case']
    ck.check(c['proc'], B.from_json(c['bp']), 0)
