"""C16 - scripts and incremental solvers track exactly the live assertions."""
import random
import warnings
from io import StringIO

from . import common
from . import monitors as M

PROP = 'C16'

# ---------------------------------------------------------------------------
# reference model of the SMT-LIB assertion stack (with OMT goals)
# ---------------------------------------------------------------------------


class RefStack(object):
    def __init__(self):
        self.frames = [[]]      # each frame: list of events

    def depth(self):
        return len(self.frames) - 1

    def legal(self, cmd):
        if cmd[0] == 'pop':
            return cmd[1] <= self.depth()
        return True

    def apply(self, cmd):
        k = cmd[0]
        if k == 'assert':
            self.frames[-1].append(('a', cmd[1]))
        elif k == 'soft':
            self.frames[-1].append(('s', cmd[1], cmd[2], cmd[3]))
        elif k == 'obj':
            self.frames[-1].append(('o', cmd[1], cmd[2], cmd[3]))
        elif k == 'push':
            for _ in range(cmd[1]):
                self.frames.append([])
        elif k == 'pop':
            for _ in range(cmd[1]):
                self.frames.pop()
        elif k == 'reset':
            self.frames = [[]]

    def assertions(self):
        return [e[1] for fr in self.frames for e in fr if e[0] == 'a']

    def goals(self):
        """-> list of ('obj', kind, term, signed) | ('maxsmt', [(f, w)])"""
        out = []
        byid = {}
        for fr in self.frames:
            for e in fr:
                if e[0] == 'o':
                    out.append(('obj', e[1], e[2], e[3]))
                elif e[0] == 's':
                    if e[1] not in byid:
                        byid[e[1]] = ('maxsmt', [])
                        out.append(byid[e[1]])
                    byid[e[1]][1].append((e[2], e[3]))
        return out


# ---------------------------------------------------------------------------
# (a) SmtLibScript
# ---------------------------------------------------------------------------
SCRIPT_ALPHABET = [
    ('assert',), ('soft', 'g1', None), ('soft', 'g2', None),
    ('soft', 'g1', 3), ('push', 0), ('push', 1), ('push', 2), ('pop', 0),
    ('pop', 1), ('pop', 2), ('reset',), ('check',), ('obj', 'minimize', False),
    ('obj', 'maximize', True), ('obj', 'minmax', False),
]


class ScriptWorld(object):
    def __init__(self, env, maxlen):
        import pysmt.typing as T
        mgr = env.formula_manager
        self.env = env
        self.mgr = mgr
        self.a = [mgr.Symbol('a%d' % i) for i in range(maxlen)]
        self.s = [mgr.Symbol('s%d' % i) for i in range(maxlen)]
        self.t = [mgr.Symbol('t%d' % i, T.BVType(4)) for i in range(maxlen)]
        self.u = [mgr.Symbol('u%d' % i, T.BVType(4)) for i in range(maxlen)]

    def concrete(self, seq):
        """abstract sequence -> list of reference commands with terms."""
        out = []
        for i, c in enumerate(seq):
            if c[0] == 'assert':
                out.append(('assert', self.a[i]))
            elif c[0] == 'soft':
                w = self.mgr.Int(c[2]) if c[2] is not None else None
                out.append(('soft', c[1], self.s[i], w))
            elif c[0] == 'obj':
                term = self.t[i] if c[1] in ('minimize', 'maximize') \
                    else [self.t[i], self.u[i]]
                out.append(('obj', c[1], term, c[2]))
            else:
                out.append(c)
        return out

    def build_script(self, cmds):
        from pysmt.smtlib.script import SmtLibScript
        import pysmt.smtlib.commands as smtcmd
        sc = SmtLibScript()
        for c in cmds:
            k = c[0]
            if k == 'assert':
                sc.add(smtcmd.ASSERT, [c[1]])
            elif k == 'soft':
                params = [(':id', c[1])]
                if c[3] is not None:
                    params.append((':weight', c[3]))
                sc.add(smtcmd.ASSERT_SOFT, [c[2], params])
            elif k == 'obj':
                name = {'minimize': smtcmd.MINIMIZE,
                        'maximize': smtcmd.MAXIMIZE, 'minmax': smtcmd.MINMAX,
                        'maxmin': smtcmd.MAXMIN}[c[1]]
                # (the options in either order: :id first, or :signed first)
                self.nobj = getattr(self, 'nobj', 0) + 1
                opts = [(':signed', c[3])]
                if self.nobj % 3 == 1:
                    opts = [(':id', 'goal%d' % self.nobj)] + opts
                elif self.nobj % 3 == 2:
                    opts = opts + [(':id', 'goal%d' % self.nobj)]
                sc.add(name, [c[2], opts])
            elif k == 'push':
                sc.add(smtcmd.PUSH, [c[1]])
            elif k == 'pop':
                sc.add(smtcmd.POP, [c[1]])
            elif k == 'reset':
                sc.add(smtcmd.RESET_ASSERTIONS, [])
            elif k == 'check':
                sc.add(smtcmd.CHECK_SAT, [])
        return sc

    def describe_goals(self, goals):
        out = []
        for g in goals:
            if g.is_maxsmt_goal():
                out.append(('maxsmt', [(f, w) for (f, w) in g.soft]))
            else:
                kind = ('minmax' if g.is_minmax_goal() else
                        'maxmin' if g.is_maxmin_goal() else
                        'minimize' if g.is_minimization_goal() else
                        'maximize')
                if kind in ('minmax', 'maxmin'):
                    term = list(g.terms)
                else:
                    term = g.term()
                out.append(('obj', kind, term, bool(g.signed)))
        return out


def compare_script(rep, world, seq, cmds, via_parser=False):
    ref = RefStack()
    for c in cmds:
        ref.apply(c)
    mgr = world.mgr
    try:
        sc = world.build_script(cmds)
        if via_parser:
            from pysmt.smtlib.parser import SmtLibParser
            buf = StringIO()
            decl = ''.join('(declare-fun %s () %s)\n' % (
                x.symbol_name(), x.symbol_type().as_smtlib(funstyle=False))
                for x in world.a + world.s + world.t + world.u)
            sc.serialize(buf, daggify=False)
            sc = SmtLibParser(world.env).get_script(
                StringIO(decl + buf.getvalue()))
        with warnings.catch_warnings():
            warnings.simplefilter('ignore')
            f, goals = sc.get_last_formula(mgr, return_optimizations=True)
            f2 = sc.get_last_formula(mgr)
    except Exception as e:
        rep.violation(
            'C16/script%s/raises/%s' % ('-parsed' if via_parser else '',
                                        common.exc_name(e)),
            'get_last_formula on %s raised %r at %s' % (
                seq, e, common.tb_short(e)), {'seq': [list(c) for c in seq]})
        return False
    exp_f = mgr.And(ref.assertions())
    rep.count('script_parsed_compared' if via_parser else 'script_compared')
    if f is not exp_f or f2 is not exp_f:
        rep.violation(
            'C16/script%s/assertions' % ('-parsed' if via_parser else ''),
            'script %s: reports %s, live assertions are %s' % (seq, f, exp_f),
            {'seq': [list(c) for c in seq]})
        return False
    got = world.describe_goals(goals)
    exp = []
    for g in ref.goals():
        if g[0] == 'maxsmt':
            # default weight 1; MaxSMTGoal() uses real weights
            exp.append(('maxsmt', [
                (f_, mgr.Real(int(w.constant_value())) if w is not None
                 else mgr.Real(1)) for (f_, w) in g[1]]))
        else:
            exp.append(g)
    if via_parser:
        # the parser fills defaults itself; compare soft formulas only
        def strip(gl):
            return [(g[0], [f_ for f_, _ in g[1]]) if g[0] == 'maxsmt'
                    else g for g in gl]
        got, exp = strip(got), strip(exp)
    if got != exp:
        rep.violation(
            'C16/script%s/goals' % ('-parsed' if via_parser else ''),
            'script %s: reports goals %s, live goals are %s' % (seq, got,
                                                                  exp),
            {'seq': [list(c) for c in seq]})
        return False
    return True


def enumerate_scripts(rep, maxlen, sample_parser_every):
    env = common.fresh_env()
    world = ScriptWorld(env, maxlen + 1)
    n = [0]
    first = SCRIPT_ALPHABET

    def rec(seq, depth):
        if len(seq) >= 1:
            n[0] += 1
            cmds = world.concrete(seq)
            rep.case(key=None, nontrivial=False,
                     sample=str(seq) if n[0] % 50021 == 1 else None)
            compare_script(rep, world, seq, cmds)
            if n[0] % sample_parser_every == 0:
                compare_script(rep, world, seq, cmds, via_parser=True)
        if len(seq) == maxlen or rep.out_of_time():
            return
        for c in SCRIPT_ALPHABET:
            if c[0] == 'pop' and c[1] > depth:
                continue
            d = depth
            if c[0] == 'push':
                d += c[1]
            elif c[0] == 'pop':
                d -= c[1]
            elif c[0] == 'reset':
                d = 0
            rec(seq + [c], d)
    # shard on the first two commands
    k = 0
    for c1 in first:
        if c1[0] == 'pop' and c1[1] > 0:
            continue
        for c2 in SCRIPT_ALPHABET:
            k += 1
            if k % rep.nshards != rep.shard:
                continue
            d = c1[1] if c1[0] == 'push' else 0
            if c2[0] == 'pop' and c2[1] > d:
                continue
            d2 = d + (c2[1] if c2[0] == 'push' else 0) - (
                c2[1] if c2[0] == 'pop' else 0)
            if c2[0] == 'reset':
                d2 = 0
            if rep.shard == (k % rep.nshards) and c2 is SCRIPT_ALPHABET[0]:
                pass
            rec([c1, c2], d2)
    if rep.shard == 0:
        for c1 in first:
            if not (c1[0] == 'pop' and c1[1] > 0):
                rec_single = [c1]
                cmds = world.concrete(rec_single)
                compare_script(rep, world, rec_single, cmds)
    rep.count('script_sequences', n[0])
    return n[0]


def random_scripts(rep, rng, n, maxlen):
    env = common.fresh_env()
    world = ScriptWorld(env, maxlen + 1)
    for j in range(n):
        if rep.out_of_time():
            break
        L = rng.randint(6, maxlen)
        seq = []
        depth = 0
        while len(seq) < L:
            c = rng.choice(SCRIPT_ALPHABET + [('obj', 'maxmin', True)])
            if c[0] == 'pop' and c[1] > depth:
                continue
            if c[0] == 'push':
                depth += c[1]
            elif c[0] == 'pop':
                depth -= c[1]
            elif c[0] == 'reset':
                depth = 0
            seq.append(c)
        cmds = world.concrete(seq)
        rep.case(key=('rs', j, rep.shard))
        compare_script(rep, world, seq, cmds)
        if j % 4 == 0:
            compare_script(rep, world, seq, cmds, via_parser=True)
        rep.count('script_long_sequences')


# ---------------------------------------------------------------------------
# (b) incremental solver
# ---------------------------------------------------------------------------
SOLVER_ALPHABET = [
    ('assert',), ('push', 1), ('push', 2), ('push', 0), ('pop', 1),
    ('pop', 2), ('pop', 0), ('reset',), ('solve',), ('solve_lit',),
    ('solve_nonlit',), ('is_sat',), ('is_valid',), ('is_unsat',),
]


def run_solver_sequence(rep, env, syms, seq, factory_kind='brute',
                        checkpoints=None):
    """Replays seq on a fresh solver, comparing `assertions` after each
    step.  Returns False at the first violation."""
    from .brutesolver import classes
    import pysmt.logics as L
    mgr = env.formula_manager
    if factory_kind == 'brute':
        BruteSolver, _ = classes()
        solver = BruteSolver(env, L.QF_BOOL)
    else:
        solver = factory_kind(env)
    ref = RefStack()
    try:
        for i, c in enumerate(seq):
            k = c[0]
            a, b = syms[2 * i], syms[2 * i + 1]
            if k == 'assert':
                solver.add_assertion(a)
                ref.apply(('assert', a))
            elif k == 'push':
                solver.push(c[1])
                ref.apply(c)
            elif k == 'pop':
                solver.pop(c[1])
                ref.apply(c)
            elif k == 'reset':
                solver.reset_assertions()
                ref.apply(c)
            elif k == 'solve':
                solver.solve()
            elif k == 'solve_lit':
                solver.solve([mgr.Not(a)])
            elif k == 'solve_nonlit':
                solver.solve([mgr.Or(a, b), b])
            elif k == 'is_sat':
                solver.is_sat(mgr.And(a, b))
            elif k == 'is_valid':
                solver.is_valid(mgr.Or(a, mgr.Not(a)))
            elif k == 'is_unsat':
                solver.is_unsat(mgr.And(a, mgr.Not(a)))
            # reading `assertions` clears a pending pop: observe only at
            # the end of the sequence (every prefix is enumerated on its own)
            # or at the requested checkpoints
            if i != len(seq) - 1 and not (checkpoints and i in checkpoints):
                continue
            got = list(solver.assertions)
            exp = ref.assertions()
            rep.count('solver_steps_compared')
            if len(got) != len(exp) or any(x is not y
                                           for x, y in zip(got, exp)):
                rep.violation(
                    'C16/solver/assertions/after-%s' % k,
                    'sequence %s: after step %d (%s) assertions=%s, live '
                    'assertions are %s' % (seq[:i + 1], i, k, got, exp),
                    {'seq': [list(x) for x in seq]})
                return False
            if factory_kind == 'brute':
                bk = [f for fr in solver.frames for f in fr]
                if solver.pending_pop:
                    # a one-shot query may leave its formula in the backend
                    # until the next command
                    pass
                elif len(bk) != len(exp) or any(x is not y
                                                for x, y in zip(bk, exp)):
                    rep.violation(
                        'C16/solver/backend-differs/after-%s' % k,
                        'sequence %s: the back-end holds %s, live '
                        'assertions are %s' % (seq[:i + 1], bk, exp),
                        {'seq': [list(x) for x in seq]})
                    return False
    except Exception as e:
        rep.violation('C16/solver/raises/%s' % common.exc_name(e),
                      'legal sequence %s raised %r at %s' % (
                          seq, e, common.tb_short(e)),
                      {'seq': [list(x) for x in seq]})
        return False
    finally:
        try:
            solver.exit()
        except Exception:
            pass
    return True


def verdict_check(rep, env, syms, rng):
    """one-shot queries return the truth (brute solver, small formulas)."""
    from .brutesolver import classes
    import pysmt.logics as L
    mgr = env.formula_manager
    BruteSolver, _ = classes()
    s = BruteSolver(env, L.QF_BOOL)
    a, b, c = syms[0], syms[1], syms[2]
    s.add_assertion(mgr.Or(a, b))
    checks = [
        (s.is_sat(mgr.And(mgr.Not(a), mgr.Not(b))), False),
        (s.is_sat(mgr.Not(a)), True),
        (s.is_valid(mgr.Or(a, b, c)), True),
        (s.is_valid(a), False),
        (s.is_unsat(mgr.And(mgr.Not(a), mgr.Not(b))), True),
        (s.solve(), True),
        (s.solve([mgr.Not(a), mgr.Not(b)]), False),
        (s.solve([mgr.And(mgr.Not(a), mgr.Not(b))]), False),
        (s.solve(), True),
    ]
    for i, (got, exp) in enumerate(checks):
        rep.count('verdicts_compared')
        if got is not exp:
            rep.violation('C16/solver/verdict/%d' % i,
                          'one-shot query %d returned %r, expected %r' % (
                              i, got, exp))
    if list(s.assertions) != [mgr.Or(a, b)]:
        rep.violation('C16/solver/assertions/after-queries',
                      'assertions changed by one-shot queries: %s' %
                      s.assertions)


def enumerate_solver(rep, maxlen):
    env = common.fresh_env()
    mgr = env.formula_manager
    syms = [mgr.Symbol('v%d' % i) for i in range(2 * (maxlen + 40))]
    n = [0]

    def rec(seq, depth):
        n[0] += 1
        rep.case(key=None, nontrivial=False,
                 sample=str(seq) if n[0] % 20011 == 1 else None)
        run_solver_sequence(rep, env, syms, seq)
        if len(seq) == maxlen or rep.out_of_time():
            return
        for c in SOLVER_ALPHABET:
            if c[0] == 'pop' and c[1] > depth:
                continue
            d = depth + (c[1] if c[0] == 'push' else 0) - (
                c[1] if c[0] == 'pop' else 0)
            if c[0] == 'reset':
                d = 0
            rec(seq + [c], d)
    k = 0
    for c1 in SOLVER_ALPHABET:
        if c1[0] == 'pop' and c1[1] > 0:
            continue
        d1 = c1[1] if c1[0] == 'push' else 0
        for c2 in SOLVER_ALPHABET:
            if c2[0] == 'pop' and c2[1] > d1:
                continue
            k += 1
            if k % rep.nshards != rep.shard:
                continue
            d2 = d1 + (c2[1] if c2[0] == 'push' else 0) - (
                c2[1] if c2[0] == 'pop' else 0)
            if c2[0] == 'reset':
                d2 = 0
            rec([c1, c2], d2)
    if rep.shard == 0:
        for c1 in SOLVER_ALPHABET:
            if not (c1[0] == 'pop' and c1[1] > 0):
                run_solver_sequence(rep, env, syms, [c1])
        verdict_check(rep, env, syms, None)
    rep.count('solver_sequences', n[0])
    return syms, env


def random_solver(rep, rng, n, maxlen, syms, env):
    for j in range(n):
        if rep.out_of_time():
            break
        L = rng.randint(6, maxlen)
        seq = []
        depth = 0
        while len(seq) < L:
            c = rng.choice(SOLVER_ALPHABET)
            if c[0] == 'pop' and c[1] > depth:
                continue
            depth += (c[1] if c[0] == 'push' else 0) - (
                c[1] if c[0] == 'pop' else 0)
            if c[0] == 'reset':
                depth = 0
            seq.append(c)
        rep.case(key=('rv', j, rep.shard))
        cps = set(rng.sample(range(L), rng.randint(0, 3)))
        run_solver_sequence(rep, env, syms, seq, checkpoints=cps)
        rep.count('solver_long_sequences')


def run(rep):
    M.NODE_MONITOR.install()
    quick = rep.tier == 'quick'
    rng = random.Random(rep.seed * 5323 + rep.shard)
    only = rep.only
    if not only or only == 'script':
        rep.share(0.3)
        enumerate_scripts(rep, 5 if quick else 6, 97)
        rep.share(0.5)
        random_scripts(rep, rng, 300 if quick else 30000, 40)
    if not only or only == 'solver':
        rep.share(0.8)
        syms, env = enumerate_solver(rep, 5 if quick else 6)
        rep.share(1.0)
        random_solver(rep, rng, 200 if quick else 20000, 30, syms, env)
    # distinct_nontrivial: every enumerated sequence is distinct by
    # construction
    rep.count('distinct_extra',
              rep.counters.get('script_sequences', 0) +
              rep.counters.get('solver_sequences', 0))


def replay(case, rep):
    c = case.get('case') or {}
    seq = [tuple(x) for x in c.get('seq', [])]
    env = common.fresh_env()
    if case['key'].startswith('C16/script'):
        world = ScriptWorld(env, len(seq) + 1)
        compare_script(rep, world, seq, world.concrete(seq))
        compare_script(rep, world, seq, world.concrete(seq), via_parser=True)
    else:
        mgr = env.formula_manager
        syms = [mgr.Symbol('v%d' % i) for i in range(2 * len(seq) + 4)]
        run_solver_sequence(rep, env, syms, seq)
