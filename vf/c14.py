"""C14 - results do not depend on what the environment was used for."""
import random
import warnings
from fractions import Fraction
from io import StringIO

from . import bp as B
from . import gen as G
from . import monitors as M
from . import common
from . import keys as K

PROP = 'C14'


def val(x):
    """Turn a result into an environment-free value."""
    from pysmt.fnode import FNode
    from pysmt.logics import Logic, Theory
    if isinstance(x, FNode):
        return ('F', K.ackey(x))
    if isinstance(x, (frozenset, set)):
        return ('S', tuple(sorted((repr(val(e)) for e in x))))
    if isinstance(x, (list, tuple)):
        return ('L', tuple(val(e) for e in x))
    if isinstance(x, dict):
        return ('D', tuple(sorted((repr(val(k)), repr(val(v)))
                                  for k, v in x.items())))
    if isinstance(x, Logic):
        return ('logic', x.name)
    if isinstance(x, Theory):
        return ('theory', repr(x))
    if hasattr(x, 'is_bool_type'):
        return ('T', repr(B.from_pytype(x)))
    return ('V', repr(x))


def outcome(fn):
    try:
        with warnings.catch_warnings():
            warnings.simplefilter('ignore')
            return ('ok', fn())
    except Exception as e:
        return ('exc', common.exc_name(e))


def queries():
    """name -> (fn(env, f) -> raw result, introduces_fresh)"""
    from pysmt import rewritings as RW
    from pysmt.oracles import get_logic, SizeOracle
    from pysmt.smtlib.parser import SmtLibParser
    from pysmt.smtlib.script import smtlibscript_from_formula
    from pysmt.parsing import HRParser

    def reparse(env, f):
        buf = StringIO()
        with warnings.catch_warnings():
            warnings.simplefilter('ignore')
            smtlibscript_from_formula(f).serialize(buf)
        return SmtLibParser(env).get_script(
            StringIO(buf.getvalue())).get_last_formula()

    def sub_swap(env, f):
        fv = sorted((s for s in f.get_free_variables()
                     if not s.symbol_type().is_function_type()),
                    key=lambda s: s.symbol_name())
        by = {}
        for s in fv:
            by.setdefault(s.symbol_type(), []).append(s)
        m = {}
        for t, ss in by.items():
            if len(ss) >= 2:
                m[ss[0]] = ss[1]
                m[ss[1]] = ss[0]
        return f.substitute(m)

    def sub_first(env, f):
        fv = sorted((s for s in f.get_free_variables()
                     if not s.symbol_type().is_function_type()),
                    key=lambda s: s.symbol_name())
        if not fv:
            return f
        s = fv[0]
        others = [x for x in fv[1:] if x.symbol_type() == s.symbol_type()]
        return f.substitute({s: others[0]} if others else {s: s})

    Q = {
        'simplify': (lambda env, f: f.simplify(), False),
        'get_type': (lambda env, f: f.get_type(), False),
        'free_vars': (lambda env, f: f.get_free_variables(), False),
        'atoms': (lambda env, f: f.get_atoms(), False),
        'is_qf': (lambda env, f: env.qfo.is_qf(f), False),
        'types': (lambda env, f: set(env.typeso.get_types(f)), False),
        'theory': (lambda env, f: env.theoryo.get_theory(f), False),
        'logic': (lambda env, f: get_logic(f, env), False),
        'sub_swap': (sub_swap, False),
        'sub_first': (sub_first, False),
        'nnf': (lambda env, f: RW.nnf(f, env), False),
        'aig': (lambda env, f: RW.aig(f, env), False),
        'prenex': (lambda env, f: RW.prenex_normal_form(f, env), True),
        'cnf': (lambda env, f: RW.cnf(f, env), True),
        'ackermann': (lambda env, f:
                      RW.Ackermannizer(env).do_ackermannization(f), True),
        'times_dist': (lambda env, f: RW.TimesDistributor(env).walk(f),
                       False),
        'serialize': (lambda env, f: f.serialize(), False),
        'to_smtlib_dag': (lambda env, f: f.to_smtlib(daggify=True), False),
        'to_smtlib_tree': (lambda env, f: f.to_smtlib(daggify=False), False),
        'reparse': (reparse, False),
        'hr_reparse': (lambda env, f: HRParser(env).parse(f.serialize()),
                       False),
    }
    for name in ('TREE_NODES', 'DAG_NODES', 'LEAVES', 'DEPTH', 'SYMBOLS',
                 'BOOL_DAG'):
        Q['size_' + name] = (
            lambda env, f, m=getattr(SizeOracle, 'MEASURE_' + name):
            f.size(m), False)
    Q['size_default'] = (lambda env, f: f.size(), False)
    return Q


STRING_QUERIES = ('serialize', 'to_smtlib_dag', 'to_smtlib_tree', 'reparse',
                  'hr_reparse')


def order_sensitive(b):
    """array values with >1 assignment print in memory-address order."""
    return any(s[0] == 'arrayval' and len(s[2]) > 3 for s in B.subterms(b))


def const_history(env, rng):
    """Constants created through every spelling (value-keyed caches)."""
    mgr = env.formula_manager
    for _ in range(rng.randint(1, 6)):
        v = rng.choice([0, 1, 2, -1, 5, 7])
        k = rng.random()
        try:
            if k < 0.3:
                mgr.Int(v)
            elif k < 0.5:
                mgr.Real(v)
            elif k < 0.6:
                mgr.Real(float(v))
            elif k < 0.7:
                mgr.Real(Fraction(v))
            elif k < 0.8:
                mgr.Real((v, 1))
            elif k < 0.9:
                mgr.Bool(bool(v % 2))
            else:
                mgr.BV(abs(v), 4)
        except Exception:
            pass


CONST_PROBES = [
    ('Int', 2), ('Int', 2.0), ('Int', True), ('Int', False), ('Int', 1),
    ('Int', Fraction(2)), ('Int', 0.0), ('Real', True), ('Real', 1),
    ('Real', 2.0), ('Real', (2, 1)), ('Real', False), ('Real', 0),
    ('Real', '1'), ('Int', '1'), ('String', 'a'), ('Bool', 1), ('Bool', True),
    ('Int', 5), ('Int', 5.0), ('Real', 5.0), ('Int', 7.0), ('Int', -1.0),
]


def const_probe(env, kind, v):
    mgr = env.formula_manager
    return getattr(mgr, kind)(v)


class Checker(object):
    def __init__(self, rep):
        self.rep = rep
        self.rng = random.Random(rep.seed * 15487469 + rep.shard)
        self.Q = queries()

    def history(self, env, pool, rng, n, answers):
        """Run n random calls in env over the pool formulas, recording the
        answers so that they can be re-queried later."""
        names = sorted(self.Q)
        for _ in range(n):
            r = rng.random()
            if r < 0.1:
                const_history(env, rng)
                continue
            if r < 0.2:
                kind, v = rng.choice(CONST_PROBES)
                outcome(lambda: const_probe(env, kind, v))
                continue
            f = rng.choice(pool)
            if r < 0.3:
                # a call that fails half-way: an ill-typed substitution
                # (the last symbol met gets a value of another type)
                fv = sorted(f.get_free_variables(),
                            key=lambda x: x.symbol_name())
                fv = [x for x in fv if not x.symbol_type().is_function_type()]
                if fv:
                    mgr = env.formula_manager
                    x = rng.choice(fv)
                    bad = mgr.Int(7) if not x.symbol_type().is_int_type() \
                        else mgr.TRUE()
                    m = {x: bad}
                    for y in fv[:2]:
                        if y is not x:
                            m[y] = y
                    o = outcome(lambda: f.substitute(m))
                    self.rep.count('history_failing_calls'
                                   if o[0] != 'ok' else 'history_calls')
                    continue
            q = rng.choice(names)
            o = outcome(lambda: self.Q[q][0](env, f))
            self.rep.count('history_calls')
            if o[0] == 'ok' and not self.Q[q][1]:
                answers.append((q, f, val(o[1]), o[1]))

    def run_case(self, j):
        from pysmt.environment import Environment, push_env, pop_env
        rep = self.rep
        rng = self.rng
        cfg = [G.Cfg(max_depth=4, share=0.4),
               G.Cfg(max_depth=4, quant=False, share=0.4),
               G.Cfg(max_depth=3, strings=False, share=0.5),
               G.Cfg(max_depth=5, arrays=False, uf=False, share=0.4)][j % 4]
        g = G.Gen(rng, cfg)
        target_bp = g.term(B.BOOL)
        # related formulas: share sub-DAGs with the target
        subs = [s for s in B.subterms(target_bp) if s[2]]
        rel_bps = [target_bp]
        for _ in range(rng.randint(3, 8)):
            k = rng.random()
            if subs and k < 0.4:
                rel_bps.append(rng.choice(subs))
            elif k < 0.7:
                rel_bps.append(('and', None, (target_bp, g.term(B.BOOL, 2))))
            else:
                rel_bps.append(g.term(rng.choice([B.BOOL, B.INT, B.BV(3)]),
                                      3))
        qnames = sorted(self.Q)
        query = rng.choice(qnames)
        envA, envB = Environment(), Environment()
        # ---- A: history, then the query
        push_env(envA)
        try:
            envA.enable_infix_notation = True
            poolA = []
            for b in rel_bps:
                o = outcome(lambda: B.build(b, envA))
                if o[0] == 'ok':
                    poolA.append(o[1])
            if not poolA or B.describe(poolA[0]) is None:
                return
            fA = poolA[0]
            answers = []
            self.history(envA, poolA, rng, rng.randint(20, 120), answers)
            oA = outcome(lambda: self.Q[query][0](envA, fA))
            oA2 = outcome(lambda: self.Q[query][0](envA, fA))
            # constants through the value-keyed caches
            kind, v = rng.choice(CONST_PROBES)
            cA = outcome(lambda: const_probe(envA, kind, v))
            # later calls, then re-query every recorded answer
            self.history(envA, poolA, rng, rng.randint(5, 30), [])
            stale = None
            for (q, f, v0, raw) in answers[-40:]:
                o = outcome(lambda: self.Q[q][0](envA, f))
                rep.count('requeried_answers')
                if o[0] != 'ok' or val(o[1]) != v0:
                    stale = (q, f, v0, o)
                    break
                # the object handed out earlier must not have been modified
                if val(raw) != v0:
                    stale = (q, f, v0, ('mutated', raw))
                    break
        finally:
            pop_env()
        # ---- B: only the query, in a fresh environment
        push_env(envB)
        try:
            envB.enable_infix_notation = True
            o = outcome(lambda: B.build(target_bp, envB))
            if o[0] != 'ok':
                return
            fB = o[1]
            oB = outcome(lambda: self.Q[query][0](envB, fB))
            cB = outcome(lambda: const_probe(envB, kind, v))
        finally:
            pop_env()
        rep.case(key=(query, hash(target_bp)),
                 sample='%s after a random history on %s' % (
                     query, B.show(target_bp, 100)) if j % 97 == 0 else None)
        sk = target_bp[0]

        def norm_o(o):
            if o[0] == 'ok':
                return ('ok', val(o[1]))
            return o

        def norm_q(o):
            from pysmt.fnode import FNode
            if o[0] == 'ok' and self.Q[query][1] and isinstance(o[1], FNode):
                return ('ok', ('Fb', K.blindkey(o[1])))
            return norm_o(o)
        nA, nB = norm_q(oA), norm_q(oB)
        if query in STRING_QUERIES and order_sensitive(target_bp):
            rep.count('string_query_skipped_address_order')
        else:
            rep.count('twin_comparisons')
            rep.count('query_' + query)
            if nA != nB:
                rep.violation(
                    '%s/history-dependent/%s/%s' % (PROP, query, (
                        nA[0] + '-vs-' + nB[0])),
                    '%s(%s): after a history %s, in a fresh environment %s'
                    % (query, B.show(target_bp, 150), str(nA)[:300],
                       str(nB)[:300]),
                    {'bp': B.to_json(target_bp), 'query': query})
        # repeated call: same object / same value
        if oA[0] == 'ok' and oA2[0] == 'ok':
            from pysmt.fnode import FNode
            rep.count('repeat_comparisons')
            if not self.Q[query][1] and isinstance(oA[1], FNode) and \
                    oA[1] is not oA2[1]:
                rep.violation('%s/repeat-not-identical/%s' % (PROP, query),
                              'two calls of %s(%s) returned two objects' % (
                                  query, B.show(target_bp, 150)),
                              {'bp': B.to_json(target_bp), 'query': query})
            elif val(oA[1]) != val(oA2[1]) and not self.Q[query][1]:
                rep.violation('%s/repeat-differs/%s' % (PROP, query),
                              'two calls of %s(%s) differ' % (
                                  query, B.show(target_bp, 150)),
                              {'bp': B.to_json(target_bp), 'query': query})
        if stale is not None:
            q, f, v0, o = stale
            rep.violation('%s/earlier-answer-changed/%s' % (PROP, q),
                          '%s(%s) answered %s earlier and %s later' % (
                              q, f, str(v0)[:200], str(o)[:200]),
                          {'bp': B.to_json(target_bp), 'query': q})
        # constants
        rep.count('constant_probes')
        ncA, ncB = norm_o(cA), norm_o(cB)
        if ncA != ncB:
            rep.violation(
                '%s/constant-cache/%s(%s)/%s-vs-%s' % (
                    PROP, kind, type(v).__name__, ncA[0], ncB[0]),
                '%s(%r): after a history %s, in a fresh environment %s' % (
                    kind, v, str(ncA)[:200], str(ncB)[:200]),
                {'kind': kind, 'value': repr(v)})


def pair_pool():
    """Small formulas over shared symbols, one per operator family: every
    ordered pair (first, then second) x every query is run."""
    s_, t_ = B.Sym('s', B.STRING), B.Sym('t', B.STRING)
    x, y = B.Sym('x', B.INT), B.Sym('y', B.INT)
    r, q = B.Sym('r', B.REAL), B.Sym('q', B.REAL)
    b, c = B.Sym('b', B.BV(4)), B.Sym('c', B.BV(4))
    p, o = B.Sym('p', B.BOOL), B.Sym('o', B.BOOL)
    a, a2 = B.Sym('a', G.A_II), B.Sym('a2', G.A_II)
    u, v = B.Sym('u', G.US), B.Sym('v', G.US)
    fI = B.FUN(B.INT, (B.INT,))

    def e(l, r_):
        return ('eq', None, (l, r_))
    return [
        e(s_, t_), e(('strlen', None, (s_,)), B.Int(1)),
        ('strcontains', None, (s_, t_)),
        e(('inttostr', None, (x,)), s_), e(('strtoint', None, (s_,)), x),
        e(('strconcat', None, (s_, t_)), t_),
        e(b, c), ('lt', None, (B.Int(0), ('bv2nat', None, (b,)))),
        ('bvult', None, (b, ('bvadd', None, (b, c)))),
        e(('extract', (0, 1), (b,)), ('extract', (2, 3), (c,))),
        ('lt', None, (x, B.Int(1))), ('lt', None, (x, y)),
        ('le', None, (('plus', None, (x, y)), B.Int(3))),
        ('le', None, (('times', None, (x, y)), B.Int(3))),
        ('le', None, (('times', None, (B.Int(2), x)), B.Int(3))),
        ('le', None, (('minus', None, (x, y)), B.Int(3))),
        ('lt', None, (('toreal', None, (x,)), r)), ('lt', None, (r, q)),
        ('le', None, (('div', None, (r, q)), B.Real(1))),
        ('le', None, (('div', None, (r, B.Real(2))), B.Real(1))),
        e(('select', None, (a, x)), B.Int(1)), e(a, a2),
        e(('store', None, (a, x, y)), a2),
        e(a, ('arrayval', B.INT, (B.Int(0),))),
        e(u, v), e(B.App('f', fI, (x,)), y),
        # array sorts that are each other's transpose / component-wise
        # variants (sorts are memoised per environment)
        e(B.Sym('air', B.ARR(B.INT, B.REAL)),
          B.Sym('air2', B.ARR(B.INT, B.REAL))),
        e(B.Sym('ari', B.ARR(B.REAL, B.INT)),
          B.Sym('ari2', B.ARR(B.REAL, B.INT))),
        e(('select', None, (B.Sym('ari', B.ARR(B.REAL, B.INT)), r)), x),
        e(('select', None, (B.Sym('air', B.ARR(B.INT, B.REAL)), x)), r),
        e(('arrayval', B.REAL, (B.Int(0),)),
          B.Sym('ari', B.ARR(B.REAL, B.INT))),
        e(('arrayval', B.INT, (B.Real(0),)),
          B.Sym('air', B.ARR(B.INT, B.REAL))),
        e(B.Sym('abv', B.ARR(B.BV(4), B.BOOL)),
          B.Sym('abv2', B.ARR(B.BV(4), B.BOOL))),
        e(B.App('f', fI, (B.App('f', fI, (x,)),)), x),
        ('forall', (('x', B.INT),), (('lt', None, (x, y)),)),
        ('exists', (('w', B.BV(4)),), (('bvult', None, (B.Sym('w', B.BV(4)),
                                                      b)),)),
        ('forall', (('k', G.US),), (p,)),
        ('not', None, (('not', None, (p,)),)), ('and', None, (p, o)),
        ('ite', None, (p, o, ('not', None, (o,)))),
        e(('ite', None, (p, x, y)), x), ('iff', None, (p, o)),
        ('implies', None, (p, ('lt', None, (x, y)))),
    ]


def pair_sequences(rep):
    """q(f1) then q'(f2) in one environment against q'(f2) in a fresh one,
    for all ordered pairs of pair_pool() and all queries."""
    from pysmt.environment import Environment, push_env, pop_env
    Q = queries()
    qn = sorted(Q)
    pool = pair_pool()
    fresh = {}
    idx = 0
    for i, b1 in enumerate(pool):
        for j, b2 in enumerate(pool):
            idx += 1
            if idx % rep.nshards != rep.shard:
                continue
            if rep.out_of_time():
                rep.notes.append('pair sequences truncated')
                return
            for k, q in enumerate(qn):
                # the earlier call: the same query, or another analysis
                q0 = q if (i + j + k) % 3 else qn[(k + 7) % len(qn)]
                if (j, q) not in fresh:
                    envB = Environment()
                    push_env(envB)
                    try:
                        o = outcome(lambda: Q[q][0](envB, B.build(b2, envB)))
                    finally:
                        pop_env()
                    fresh[(j, q)] = ('ok', val(o[1])) if o[0] == 'ok' else o
                envA = Environment()
                push_env(envA)
                try:
                    f1 = B.build(b1, envA)
                    f2 = B.build(b2, envA)
                    outcome(lambda: Q[q0][0](envA, f1))
                    o = outcome(lambda: Q[q][0](envA, f2))
                finally:
                    pop_env()
                got = ('ok', val(o[1])) if o[0] == 'ok' else o
                rep.count('pair_queries')
                if Q[q][1]:
                    continue      # fresh names: covered by the random part
                if got != fresh[(j, q)]:
                    rep.violation(
                        'C14/history-dependent/pairs/%s-after-%s' % (q, q0),
                        '%s(%s) after %s(%s) gives %s, in a fresh '
                        'environment %s' % (q, B.show(b2, 80), q0,
                                            B.show(b1, 80), str(got)[:150],
                                            str(fresh[(j, q)])[:150]),
                        {'bp': B.to_json(b2), 'kind': 'pairs'})
            rep.case(key=('pair', i, j))


def resimplify_sequences(rep, rng, n):
    """simplify(f) = r in one environment, then simplify(r) there, against
    simplify(r) in an environment that has never seen f (a result recorded
    as its own fixpoint would show here)."""
    from pysmt.environment import Environment, push_env, pop_env
    x, y, z = B.Sym('x', B.INT), B.Sym('y', B.INT), B.Sym('z', B.INT)
    r, q = B.Sym('r', B.REAL), B.Sym('q', B.REAL)
    p, o = B.Sym('p', B.BOOL), B.Sym('o', B.BOOL)
    b, c = B.Sym('b', B.BV(4)), B.Sym('c', B.BV(4))
    T = lambda *a: ('times', None, a)
    P = lambda *a: ('plus', None, a)
    fixed = [
        ('le', None, (P(x, T(x, B.Int(-1))), z)),
        ('le', None, (P(T(B.Int(-1), x), x), z)),
        ('le', None, (P(r, T(r, B.Real(-1))), q)),
        ('le', None, (P(x, T(y, B.Int(-1)), T(x, B.Int(-1))), z)),
        ('eq', None, (('minus', None, (P(x, y), y)), z)),
        ('le', None, (T(P(x, B.Int(0)), B.Int(1)), z)),
        ('eq', None, (('ite', None, (p, P(x, B.Int(0)), x)), z)),
        ('and', None, (p, ('or', None, (p, o)), ('not', None, (
            ('not', None, (o,)),)))),
        ('eq', None, (('bvadd', None, (b, ('bvneg', None, (b,)))), c)),
        ('eq', None, (('bvsub', None, (('bvadd', None, (b, c)), c)), b)),
        ('le', None, (('div', None, (T(r, B.Real(2)), B.Real(2))), q)),
        ('lt', None, (('toreal', None, (P(x, T(x, B.Int(-1))),)), r)),
    ]
    cfgs = [G.Cfg(max_depth=4, quant=False, strings=False, arrays=False,
                  uf=False, custom=False, share=0.3),
            G.Cfg(max_depth=4, share=0.3)]
    idx = 0
    for k in range(n):
        if k < len(fixed):
            fb = fixed[k]
        else:
            fb = G.Gen(rng, cfgs[k % 2]).term(B.BOOL)
        idx += 1
        if idx % rep.nshards != rep.shard:
            continue
        if rep.out_of_time():
            rep.notes.append('resimplify sequences truncated')
            return
        envA = Environment()
        push_env(envA)
        try:
            o1 = outcome(lambda: B.build(fb, envA).simplify())
            if o1[0] != 'ok':
                continue
            try:
                rb = B.describe(o1[1])
            except B.Undescribable:
                continue
            o2 = outcome(lambda: o1[1].simplify())
        finally:
            pop_env()
        envB = Environment()
        push_env(envB)
        try:
            o3 = outcome(lambda: B.build(rb, envB).simplify())
        finally:
            pop_env()
        rep.count('resimplify_checks')
        rep.case(key=('resimplify', hash(fb)))
        got = ('ok', val(o2[1])) if o2[0] == 'ok' else o2
        want = ('ok', val(o3[1])) if o3[0] == 'ok' else o3
        if got != want:
            rep.violation(
                'C14/history-dependent/resimplify',
                'simplify(%s) = r = %s; simplify(r) in the same environment '
                'gives %s, in a fresh one %s' % (
                    B.show(fb, 100), B.show(rb, 100), str(got)[:160],
                    str(want)[:160]), {'bp': B.to_json(fb),
                                       'kind': 'resimplify'})


def constant_sequences(rep):
    """Deterministic pairs: create c1, then ask for c2 (== c1 in Python)."""
    from pysmt.environment import Environment, push_env, pop_env
    spell = [('Int', 1), ('Int', True), ('Int', 1.0), ('Int', Fraction(1)),
             ('Real', 1), ('Real', True), ('Real', 1.0), ('Real', (1, 1)),
             ('Int', 0), ('Int', False), ('Int', 0.0), ('Real', 0),
             ('Real', False), ('Int', 2), ('Int', 2.0), ('Real', 2),
             ('Real', Fraction(2))]
    for first in spell:
        for second in spell:
            if first[0] != second[0]:
                continue
            e1, e2 = Environment(), Environment()
            push_env(e1)
            try:
                outcome(lambda: const_probe(e1, *first))
                a = outcome(lambda: const_probe(e1, *second))
            finally:
                pop_env()
            push_env(e2)
            try:
                b = outcome(lambda: const_probe(e2, *second))
            finally:
                pop_env()
            na = ('ok', val(a[1])) if a[0] == 'ok' else a
            nb = ('ok', val(b[1])) if b[0] == 'ok' else b
            rep.count('constant_sequence_checks')
            rep.case(key=('constseq', repr(first), repr(second)))
            if na != nb:
                rep.violation(
                    '%s/constant-cache/%s(%s)/%s-vs-%s' % (
                        PROP, second[0], type(second[1]).__name__, na[0],
                        nb[0]),
                    '%s(%r) after %s(%r): %s; in a fresh environment: %s' % (
                        second[0], second[1], first[0], first[1], na, nb),
                    {'first': repr(first), 'second': repr(second)})


def _strip_annotations(t):
    if isinstance(t, list):
        if t and t[0] == '!' and len(t) > 1:
            return _strip_annotations(t[1])
        return [_strip_annotations(x) for x in t]
    return t


def _rename_symbols(t, suffix):
    """(an environment has one type per symbol name: scripts that are not
    variants of each other get name spaces of their own)"""
    if isinstance(t, list):
        return [_rename_symbols(x, suffix) for x in t]
    if isinstance(t, tuple) and t[0] == 's':
        return ('s', t[1] + suffix)
    return t


def _symbol_names(t, acc):
    if isinstance(t, list):
        for x in t:
            _symbol_names(x, acc)
    elif isinstance(t, tuple) and t[0] == 's':
        acc.add(t[1])
    return acc


def _canon_fresh(text, names):
    """Number the parser's fresh symbols by first occurrence: the property
    compares up to the names of fresh symbols.  The parser derives them from
    a name of the script (<name><n> for a binder that clashes with a global,
    __<name><n> for a parameter of a definition)."""
    import re
    seen = {}

    def sub(m):
        tok = m.group(0)
        raw = tok[1:-1] if tok.startswith('|') else tok
        if raw in names:
            return tok
        for k in range(len(raw) - 1, 0, -1):
            if not raw[k:].isdigit():
                break
            base = raw[:k]
            if base in names or (base.startswith('__') and
                                 base[2:] in names):
                if raw not in seen:
                    seen[raw] = len(seen)
                return '|%s#%d|' % (base, seen[raw])
        return tok
    return re.sub(r'\|[^|]*\||[^\s()]+', sub, text)


def _observe_script(env, text, parser=None, names=()):
    """What a user sees of a parsed script: the commands as printed by both
    printers, the annotation table, the last formula."""
    from pysmt.smtlib.parser import SmtLibParser

    def go():
        ps = parser if parser is not None else SmtLibParser(env)
        sc = ps.get_script(StringIO(text))
        out = []
        for dag in (False, True):
            buf = StringIO()
            sc.serialize(buf, daggify=dag)
            out.append(_canon_fresh(buf.getvalue(), names))
        ann = sc.annotations
        dump = []
        if ann is not None:
            for f, d in ann._annotations.items():
                for k, vs in d.items():
                    dump.append((_canon_fresh(f.to_smtlib(False), names), k,
                                 sorted(map(str, vs))))
        out.append(sorted(dump))
        try:
            out.append(_canon_fresh(
                sc.get_last_formula().to_smtlib(False), names))
        except Exception as e:
            out.append('exc:' + common.exc_name(e))
        return out
    try:
        with warnings.catch_warnings():
            warnings.simplefilter('ignore')
            return ('ok', go())
    except Exception as e:
        return ('exc', common.exc_name(e))


def parse_sequences(rep, n):
    """Scripts read one after the other in one environment - each by a
    parser of its own, or all by one parser - and the last one compared
    with reading it in a fresh environment.  The last script shares its
    terms with an earlier one that annotates them (or the other way
    round)."""
    from pysmt.environment import Environment, push_env, pop_env
    from . import textgen as T
    rng = random.Random(rep.seed * 1299709 + rep.shard * 31 + 5)
    k = 0
    while k < n and not rep.out_of_time():
        k += 1
        g = T.TextGen(random.Random(rng.randrange(10 ** 9)),
                      depth=rng.choice([2, 3]))
        try:
            tree = g.script(n_cmds=rng.choice([4, 6, 9]))
        except T.NoLiteral:
            continue
        plain = _strip_annotations(tree)
        annotated = tree != plain
        names = _symbol_names(tree, set())
        ta, tp = T.render(tree), T.render(plain)
        others = []
        for _ in range(rng.randint(0, 2)):
            g2 = T.TextGen(random.Random(rng.randrange(10 ** 9)), depth=2)
            try:
                others.append(T.render(_rename_symbols(
                    g2.script(n_cmds=4), '_o%d' % len(others))))
            except T.NoLiteral:
                pass
        first, probe = (ta, tp) if k % 2 == 0 else (tp, ta)
        hist = others + [first]
        rng.shuffle(hist)
        one_parser = (k % 3 == 0)
        e1, e2 = Environment(), Environment()
        push_env(e1)
        try:
            from pysmt.smtlib.parser import SmtLibParser
            ps = SmtLibParser(e1) if one_parser else None
            for t in hist:
                _observe_script(e1, t, ps)
            a = _observe_script(e1, probe, ps, names)
        finally:
            pop_env()
        push_env(e2)
        try:
            b = _observe_script(e2, probe, None, names)
        finally:
            pop_env()
        rep.count('parse_sequence_checks')
        if annotated:
            rep.count('parse_sequences_with_annotations')
        rep.case(key=('parseseq', probe, tuple(hist)))
        if a != b:
            what = 'outcome'
            if a[0] == 'ok' and b[0] == 'ok':
                what = ['tree-print', 'dag-print', 'annotations',
                        'last-formula'][[i for i in range(4)
                                         if a[1][i] != b[1][i]][0]]
            rep.violation(
                '%s/parse-history/%s/%s' % (
                    PROP, 'one-parser' if one_parser else 'new-parsers',
                    what),
                'reading %r after %r gives %s; in a fresh environment: %s'
                % (probe[:200], [h[:120] for h in hist], str(a)[:300],
                   str(b)[:300]),
                {'probe': probe, 'history': hist, 'one_parser': one_parser})


def type_sequences(rep):
    """Sorts asked for one after the other in one environment (the type
    manager caches composite sorts): the second sort is the one asked for,
    whatever look-alike was built before it."""
    from pysmt.environment import Environment, push_env, pop_env
    AII, AIR, ARI = B.ARR(B.INT, B.INT), B.ARR(B.INT, B.REAL), \
        B.ARR(B.REAL, B.INT)
    US, UT = ('U', 'SortS'), ('U', 'SortT')
    sorts = [AII, AIR, ARI, B.ARR(AII, B.INT), B.ARR(AIR, B.INT),
             B.ARR(ARI, B.INT), B.ARR(B.INT, AII), B.ARR(B.INT, AIR),
             B.ARR(B.BV(4), B.BV(8)), B.ARR(B.BV(8), B.BV(4)),
             B.ARR(B.BV(4), B.BV(4)), B.ARR(B.ARR(B.BV(4), B.INT), B.INT),
             B.ARR(B.ARR(B.BV(8), B.INT), B.INT), B.ARR(US, B.INT),
             B.ARR(UT, B.INT), B.ARR(B.ARR(US, B.INT), B.BOOL),
             B.ARR(B.ARR(UT, B.INT), B.BOOL),
             B.FUN(B.INT, (B.INT, B.REAL)), B.FUN(B.INT, (B.REAL, B.INT)),
             B.FUN(B.INT, (AII,)), B.FUN(B.INT, (AIR,)),
             B.FUN(AII, (B.INT,)), B.FUN(AIR, (B.INT,)),
             ('U', 'Pr', (B.INT, B.REAL)), ('U', 'Pr', (B.REAL, B.INT)),
             ('U', 'Pr', (AII, B.INT)), ('U', 'Pr', (AIR, B.INT)),
             B.BV(4), B.BV(8)]
    k = 0
    for i, t1 in enumerate(sorts):
        for j, t2 in enumerate(sorts):
            k += 1
            if k % rep.nshards != rep.shard:
                continue
            env = Environment()
            push_env(env)
            try:
                p1 = B.to_pytype(t1, env)
                p2 = B.to_pytype(t2, env)
                mgr = env.formula_manager
                s2 = mgr.Symbol('ts_b', p2)
                got = B.from_pytype(p2)
                got_sym = B.from_pytype(s2.symbol_type())
            except Exception as e:
                rep.violation('%s/sort-sequence/raises' % PROP,
                              'asking for sort %r after %r raised %r' % (
                                  t2, t1, e), {'t1': repr(t1),
                                               't2': repr(t2)})
                continue
            finally:
                pop_env()
            rep.count('sort_sequence_checks')
            rep.case(key=('sortseq', i, j))
            if got != t2 or got_sym != t2 or (p1 is p2) != (t1 == t2):
                rep.violation(
                    '%s/sort-sequence/%s-after-%s' % (PROP, t2[0], t1[0]),
                    'asking for sort %r after %r gives %r (symbol: %r)' % (
                        t2, t1, got, got_sym),
                    {'t1': repr(t1), 't2': repr(t2)})


def run(rep):
    M.NODE_MONITOR.install()
    ck = Checker(rep)
    if rep.shard == 0 and (not rep.only or rep.only == 'constants'):
        constant_sequences(rep)
    if not rep.only or rep.only == 'sorts':
        type_sequences(rep)
    rep.share(0.1)
    if not rep.only or rep.only == 'parse':
        parse_sequences(rep, 40 if rep.tier == 'quick' else 4000)
    rep.share(0.35)
    if not rep.only or rep.only == 'pairs':
        pair_sequences(rep)
    rep.share(0.45)
    if not rep.only or rep.only == 'resimplify':
        resimplify_sequences(rep, random.Random(rep.seed * 977 + 3),
                             2000 if rep.tier == 'quick' else 200000)
    rep.share(1.0)
    n = 500 if rep.tier == 'quick' else 20000
    j = 0
    while j < n and not rep.out_of_time():
        if rep.only and rep.only != 'twin':
            break
        ck.run_case(j)
        j += 1
        if j % 10 == 0:
            M.NODE_MONITOR.types.clear()
            M.NODE_MONITOR.shadow.clear()
            M.NODE_MONITOR.byid.clear()
            M.NODE_MONITOR.mgrs.clear()
    if j < n:
        rep.notes.append('truncated at %d of %d histories' % (j, n))


def replay(case, rep):
    rep.only = None
    run(rep)
