"""M3 - independent SMT-LIB 2.6 reader: tokenizer, S-expressions, sort
checking, translation of terms into blueprints (vf/bp.py).  Never calls
pySMT.  Strict: every sort and symbol must be declared exactly once while in
scope and before use."""
from fractions import Fraction

from . import bp as B

RESERVED = set('''! _ as BINARY DECIMAL exists HEXADECIMAL forall let match
NUMERAL par STRING assert check-sat check-sat-assuming declare-const
declare-datatype declare-datatypes declare-fun declare-sort define-fun
define-fun-rec define-funs-rec define-sort echo exit get-assertions
get-assignment get-info get-model get-option get-proof get-unsat-assumptions
get-unsat-core get-value pop push reset reset-assertions set-info set-logic
set-option'''.split())

CORE_SYMBOLS = set('''true false not => and or xor = distinct ite + - * / div
mod abs <= < >= > to_real to_int is_int select store concat bvnot bvneg bvand
bvor bvadd bvmul bvudiv bvurem bvshl bvlshr bvult bvnand bvnor bvxor bvxnor
bvcomp bvsub bvsdiv bvsrem bvsmod bvashr bvule bvugt bvuge bvslt bvsle bvsgt
bvsge bv2nat str.len str.++ str.at str.substr str.prefixof str.suffixof
str.contains str.indexof str.replace str.to_int str.from_int str.< str.<=
Bool Int Real String Array BitVec'''.split())

LEGACY = {'str.to.int': 'str.to_int', 'int.to.str': 'str.from_int'}


class SmtError(Exception):
    """The text is not well-formed / well-sorted SMT-LIB."""

    def __init__(self, kind, msg):
        Exception.__init__(self, '%s: %s' % (kind, msg))
        self.kind = kind


SYMCHARS = set('abcdefghijklmnopqrstuvwxyzABCDEFGHIJKLMNOPQRSTUVWXYZ'
               '0123456789~!@$%^&*_-+=<>.?/')


# ---------------------------------------------------------------------------
# tokens and S-expressions
# ---------------------------------------------------------------------------
class Tok(object):
    __slots__ = ('kind', 'val', 'extra')

    def __init__(self, kind, val, extra=None):
        self.kind, self.val, self.extra = kind, val, extra

    def __repr__(self):
        return '%s:%r' % (self.kind, self.val)


# reading mode for names outside SMT-LIB's symbol syntax (C07 escaped names)
PYSMT_ESCAPES = [False]


def tokenize(text):
    i, n = 0, len(text)
    out = []
    while i < n:
        c = text[i]
        if c in ' \t\r\n':
            i += 1
        elif c == ';':
            while i < n and text[i] not in '\r\n':
                i += 1
        elif c == '(':
            out.append(Tok('(', '('))
            i += 1
        elif c == ')':
            out.append(Tok(')', ')'))
            i += 1
        elif c == '"':
            j = i + 1
            buf = []
            while True:
                if j >= n:
                    raise SmtError('lexical', 'unterminated string literal')
                if text[j] == '"':
                    if j + 1 < n and text[j + 1] == '"':
                        buf.append('"')
                        j += 2
                        continue
                    break
                buf.append(text[j])
                j += 1
            out.append(Tok('str', ''.join(buf)))
            i = j + 1
        elif c == '|':
            if PYSMT_ESCAPES[0]:
                # pySMT's documented convention for names SMT-LIB has no
                # spelling for: \\\\ is a backslash, \\| a bar
                j = i + 1
                buf = []
                while True:
                    if j >= n:
                        raise SmtError('lexical',
                                       'unterminated quoted symbol')
                    if text[j] == '|':
                        break
                    if text[j] == '\\':
                        if j + 1 >= n or text[j + 1] not in '\\|':
                            raise SmtError('lexical', 'bad escape in '
                                           'quoted symbol')
                        buf.append(text[j + 1])
                        j += 2
                        continue
                    buf.append(text[j])
                    j += 1
                out.append(Tok('sym', ''.join(buf), True))
                i = j + 1
                continue
            j = text.find('|', i + 1)
            if j < 0:
                raise SmtError('lexical', 'unterminated quoted symbol')
            body = text[i + 1:j]
            if '\\' in body:
                raise SmtError('lexical', 'backslash in quoted symbol')
            out.append(Tok('sym', body, True))
            i = j + 1
        elif c == '#':
            j = i + 2
            if i + 1 < n and text[i + 1] == 'b':
                while j < n and text[j] in '01':
                    j += 1
                if j == i + 2:
                    raise SmtError('lexical', 'empty binary literal')
                out.append(Tok('bv', (int(text[i + 2:j], 2), j - i - 2)))
            elif i + 1 < n and text[i + 1] == 'x':
                while j < n and text[j] in '0123456789abcdefABCDEF':
                    j += 1
                if j == i + 2:
                    raise SmtError('lexical', 'empty hex literal')
                out.append(Tok('bv', (int(text[i + 2:j], 16),
                                      4 * (j - i - 2))))
            else:
                raise SmtError('lexical', 'bad # literal')
            i = j
            if i < n and text[i] in SYMCHARS:
                raise SmtError('lexical', 'junk after # literal')
        elif c == ':':
            j = i + 1
            while j < n and text[j] in SYMCHARS:
                j += 1
            out.append(Tok('kw', text[i:j]))
            i = j
        elif c in SYMCHARS:
            j = i
            while j < n and text[j] in SYMCHARS:
                j += 1
            w = text[i:j]
            if w[0].isdigit():
                if w.isdigit():
                    if len(w) > 1 and w[0] == '0':
                        raise SmtError('lexical', 'numeral with leading 0')
                    out.append(Tok('num', int(w)))
                else:
                    a, dot, b_ = w.partition('.')
                    if dot and a.isdigit() and b_.isdigit() and not (
                            len(a) > 1 and a[0] == '0'):
                        out.append(Tok('dec', Fraction(int(a + b_),
                                                       10 ** len(b_))))
                    else:
                        raise SmtError('lexical', 'bad literal %r' % w)
            else:
                out.append(Tok('sym', w, False))
            i = j
        else:
            raise SmtError('lexical', 'illegal character %r' % c)
    return out


def parse_sexprs(toks):
    stack = [[]]
    for t in toks:
        if t.kind == '(':
            stack.append([])
        elif t.kind == ')':
            if len(stack) == 1:
                raise SmtError('syntax', 'unbalanced )')
            x = stack.pop()
            stack[-1].append(x)
        else:
            stack[-1].append(t)
    if len(stack) != 1:
        raise SmtError('syntax', 'unbalanced (')
    return stack[0]


_ESC = None


def decode_string_escapes(v):
    """Theory of strings, SMT-LIB 2.6: \\ud3d2d1d0, \\u{d0}..\\u{d4d3d2d1d0}
    (the latter with first digit 0-2) denote the character with that code;
    every other backslash is an ordinary character."""
    import re
    global _ESC
    if _ESC is None:
        _ESC = re.compile(r'\\u(?:([0-9a-fA-F]{4})|\{([0-9a-fA-F]{1,4}|'
                          r'[0-2][0-9a-fA-F]{4})\})')
    return _ESC.sub(lambda m: chr(int(m.group(1) or m.group(2), 16)), v)


def is_sym(x, name=None):
    return isinstance(x, Tok) and x.kind == 'sym' and (
        name is None or (x.val == name and not x.extra))


# ---------------------------------------------------------------------------
# the reader
# ---------------------------------------------------------------------------
class Logic(object):
    def __init__(self, name):
        self.name = name
        n = name or ''
        if n.startswith('QF_'):
            n = n[3:]
        self.ints = any(k in n for k in ('IA', 'IDL', 'LIRA', 'NIRA'))
        self.reals = any(k in n for k in ('RA', 'RDL', 'LIRA', 'NIRA'))
        if name in (None, 'ALL'):
            self.ints = self.reals = True

    def numeral_sort(self):
        if self.reals and not self.ints:
            return B.REAL
        return B.INT


class Reader(object):
    def __init__(self, strict_names=True, lenient_real_division=True,
                 decode_unicode=False):
        self.decode_unicode = decode_unicode
        self.logic = Logic(None)
        self.logic_set = False
        self.sort_levels = [dict()]   # name -> arity | ('macro', params, body)
        self.fun_levels = [dict()]    # name -> ('decl', type) | ('def', ...)
        self.assertions = [[]]
        self.commands = []            # (name, payload)
        self.nonstandard = []         # recorded deviations
        self.counter = 0
        self.strict_names = strict_names

    # ---- sorts -------------------------------------------------------------
    def lookup_sort(self, name):
        for lv in reversed(self.sort_levels):
            if name in lv:
                return lv[name]
        return None

    def sort(self, x, params=None):
        if isinstance(x, Tok):
            if x.kind != 'sym':
                raise SmtError('sort', 'bad sort %r' % (x,))
            if params and x.val in params:
                return params[x.val]
            if not x.extra:
                if x.val == 'Bool':
                    return B.BOOL
                if x.val == 'Int':
                    return B.INT
                if x.val == 'Real':
                    return B.REAL
                if x.val == 'String':
                    return B.STRING
            d = self.lookup_sort(x.val)
            if d is None:
                raise SmtError('undeclared-sort', x.val)
            if isinstance(d, tuple):
                if d[1]:
                    raise SmtError('sort', 'sort macro %s needs arguments'
                                   % x.val)
                return d[2]
            if d != 0:
                raise SmtError('sort', 'sort %s has arity %d' % (x.val, d))
            return B.U(x.val)
        if not x:
            raise SmtError('sort', 'empty sort')
        h = x[0]
        if is_sym(h, '_'):
            if len(x) == 3 and is_sym(x[1], 'BitVec') and \
                    isinstance(x[2], Tok) and x[2].kind == 'num' \
                    and x[2].val > 0:
                return B.BV(x[2].val)
            raise SmtError('sort', 'bad indexed sort')
        if is_sym(h, 'Array'):
            if len(x) != 3:
                raise SmtError('sort', 'Array takes two sorts')
            return B.ARR(self.sort(x[1], params), self.sort(x[2], params))
        if isinstance(h, Tok) and h.kind == 'sym':
            d = self.lookup_sort(h.val)
            if d is None:
                raise SmtError('undeclared-sort', h.val)
            args = [self.sort(a, params) for a in x[1:]]
            if isinstance(d, tuple):
                if len(d[1]) != len(args):
                    raise SmtError('sort', 'arity of sort macro %s' % h.val)
                return self.subst_sort(d[2], dict(zip(d[1], args)))
            if d != len(args):
                raise SmtError('sort', 'arity of sort %s' % h.val)
            return ('U', h.val, tuple(args))
        raise SmtError('sort', 'bad sort')

    def subst_sort(self, t, m):
        if t[0] == 'P':
            return m[t[1]]
        if t[0] == 'Array':
            return B.ARR(self.subst_sort(t[1], m), self.subst_sort(t[2], m))
        if t[0] == 'U' and len(t) > 2:
            return ('U', t[1], tuple(self.subst_sort(a, m) for a in t[2]))
        return t

    # ---- symbols -----------------------------------------------------------
    def lookup_fun(self, name):
        for lv in reversed(self.fun_levels):
            if name in lv:
                return lv[name]
        return None

    def check_new_name(self, tok):
        name = tok.val
        if tok.kind != 'sym':
            raise SmtError('syntax', 'symbol expected, got %r' % (tok,))
        if not tok.extra and name in RESERVED:
            raise SmtError('reserved', name)
        if self.strict_names and name in CORE_SYMBOLS:
            raise SmtError('redeclared', 'theory symbol %s' % name)
        if self.lookup_fun(name) is not None:
            raise SmtError('redeclared', name)
        if name.startswith('.') or name.startswith('@'):
            self.nonstandard.append(('reserved-prefix', name))

    def fresh(self, name):
        # (the separator is a control character: such a name cannot be
        # written in SMT-LIB text, so it never clashes with a user symbol)
        self.counter += 1
        return '%s\x1f%d' % (name, self.counter)

    # ---- terms -------------------------------------------------------------
    def term(self, x, env):
        """x: S-expression; env: dict local name -> blueprint.
        Returns a well-typed blueprint."""
        b = self._term(x, env)
        return b

    def typ(self, b):
        try:
            return B.typeof(b)
        except B.IllTyped as e:
            raise SmtError('ill-sorted', str(e))

    def _term(self, x, env):
        if isinstance(x, Tok):
            return self.atom(x, env)
        if not x:
            raise SmtError('syntax', 'empty application')
        h = x[0]
        if isinstance(h, list):
            # ((_ extract i j) t) / ((as const S) t) / ((_ f ..) ..)
            return self.apply_complex(h, x[1:], env)
        if h.kind != 'sym':
            raise SmtError('syntax', 'bad application head %r' % (h,))
        name = h.val
        if not h.extra:
            if name == 'let':
                return self.let(x, env)
            if name in ('forall', 'exists'):
                return self.quant(x, env)
            if name == '!':
                if len(x) < 3:
                    raise SmtError('syntax', 'annotation without attribute')
                prev_kw = False
                for i, at in enumerate(x[2:]):
                    kw = isinstance(at, Tok) and at.kind == 'kw'
                    if not kw and not prev_kw:
                        raise SmtError('syntax', 'attribute value without '
                                       'keyword')
                    prev_kw = kw
                return self._term(x[1], env)
            if name == '_':
                return self.indexed_const(x)
            if name == 'as':
                raise SmtError('unsupported', '(as ...) as a term')
        args = [self._term(a, env) for a in x[1:]]
        return self.apply(h, args, env)

    def atom(self, t, env):
        if t.kind == 'num':
            if self.logic.numeral_sort() == B.REAL:
                return B.Real(t.val)
            return B.Int(t.val)
        if t.kind == 'dec':
            return B.Real(t.val)
        if t.kind == 'bv':
            return B.BVc(t.val[0], t.val[1])
        if t.kind == 'str':
            if self.decode_unicode:
                return B.Str(decode_string_escapes(t.val))
            return B.Str(t.val)
        if t.kind != 'sym':
            raise SmtError('syntax', 'unexpected token %r' % (t,))
        name = t.val
        if name in env:
            return env[name]
        if not t.extra:
            if name == 'true':
                return B.Bool(True)
            if name == 'false':
                return B.Bool(False)
        d = self.lookup_fun(name)
        if d is None:
            raise SmtError('undeclared', name)
        if d[0] == 'decl':
            if d[1][0] == 'Fun':
                raise SmtError('ill-sorted', 'function %s used as a constant'
                               % name)
            return B.Sym(name, d[1])
        # definition
        _, params, ret, body = d
        if params:
            raise SmtError('ill-sorted', 'macro %s needs arguments' % name)
        return body

    def let(self, x, env):
        if len(x) != 3 or not isinstance(x[1], list) or not x[1]:
            raise SmtError('syntax', 'bad let')
        new = dict(env)
        seen = set()
        for bnd in x[1]:
            if not (isinstance(bnd, list) and len(bnd) == 2
                    and isinstance(bnd[0], Tok) and bnd[0].kind == 'sym'):
                raise SmtError('syntax', 'bad let binding')
            if bnd[0].val in seen:
                raise SmtError('syntax', 'duplicate let variable')
            seen.add(bnd[0].val)
            # parallel let: right-hand sides see the OUTER scope
            new[bnd[0].val] = self._term(bnd[1], env)
        return self._term(x[2], new)

    def quant(self, x, env):
        if len(x) != 3 or not isinstance(x[1], list) or not x[1]:
            raise SmtError('syntax', 'bad quantifier')
        new = dict(env)
        vs = []
        for sv in x[1]:
            if not (isinstance(sv, list) and len(sv) == 2
                    and isinstance(sv[0], Tok) and sv[0].kind == 'sym'):
                raise SmtError('syntax', 'bad sorted variable')
            t = self.sort(sv[1])
            nm = self.fresh(sv[0].val)
            vs.append((nm, t))
            new[sv[0].val] = B.Sym(nm, t)
        body = self._term(x[2], new)
        if self.typ(body) != B.BOOL:
            raise SmtError('ill-sorted', 'quantifier body is not Bool')
        return (x[0].val, tuple(vs), (body,))

    def indexed_const(self, x):
        # (_ bvN w)
        if len(x) == 3 and isinstance(x[1], Tok) and x[1].kind == 'sym' and \
                x[1].val.startswith('bv') and x[1].val[2:].isdigit() and \
                isinstance(x[2], Tok) and x[2].kind == 'num':
            v, w = int(x[1].val[2:]), x[2].val
            if w <= 0 or v >= 2 ** w:
                raise SmtError('ill-sorted', 'bv literal out of range')
            return B.BVc(v, w)
        raise SmtError('unsupported', 'indexed identifier %r' % (x[1:],))

    def apply_complex(self, h, rest, env):
        args = [self._term(a, env) for a in rest]
        if h and is_sym(h[0], '_'):
            if len(h) < 2 or not isinstance(h[1], Tok):
                raise SmtError('syntax', 'bad indexed identifier')
            nm = h[1].val
            idx = []
            for t in h[2:]:
                if not (isinstance(t, Tok) and t.kind == 'num'):
                    raise SmtError('syntax', 'index must be a numeral')
                idx.append(t.val)
            if nm == 'extract' and len(idx) == 2 and len(args) == 1:
                r = ('extract', (idx[1], idx[0]), (args[0],))
            elif nm in ('zero_extend', 'sign_extend') and len(idx) == 1 \
                    and len(args) == 1:
                r = ('zext' if nm == 'zero_extend' else 'sext', idx[0],
                     (args[0],))
            elif nm in ('rotate_left', 'rotate_right') and len(idx) == 1 \
                    and len(args) == 1:
                t = self.typ(args[0])
                if t[0] != 'BV':
                    raise SmtError('ill-sorted', 'rotate of non-bitvector')
                r = ('rol' if nm == 'rotate_left' else 'ror',
                     idx[0] % t[1], (args[0],))
            elif nm == 'repeat' and len(idx) == 1 and len(args) == 1:
                if idx[0] < 1:
                    raise SmtError('ill-sorted', 'repeat 0')
                r = args[0]
                for _ in range(idx[0] - 1):
                    r = ('concat', None, (r, args[0]))
            else:
                raise SmtError('unsupported', 'indexed operator %s' % nm)
            self.typ(r)
            return r
        if h and is_sym(h[0], 'as'):
            if len(h) == 3 and is_sym(h[1], 'const') and len(args) == 1:
                s = self.sort(h[2])
                if s[0] != 'Array':
                    raise SmtError('ill-sorted', 'as const of non-array')
                r = ('arrayval', s[1], (args[0],))
                if self.typ(r) != s:
                    raise SmtError('ill-sorted', 'as const element sort')
                return r
            raise SmtError('unsupported', '(as ...)')
        raise SmtError('syntax', 'bad application head')

    def apply(self, h, args, env):
        name = h.val
        ts = [self.typ(a) for a in args]
        if h.extra or name not in CORE_SYMBOLS and name not in LEGACY \
                and name != 'pow':
            if name in env:
                raise SmtError('ill-sorted', 'local %s applied' % name)
            d = self.lookup_fun(name)
            if d is None:
                raise SmtError('undeclared', name)
            if d[0] == 'decl':
                ft = d[1]
                if ft[0] != 'Fun':
                    raise SmtError('ill-sorted', '%s is not a function'
                                   % name)
                r = B.App(name, ft, args)
                self.typ(r)
                return r
            _, params, ret, body = d
            if len(params) != len(args):
                raise SmtError('ill-sorted', 'arity of %s' % name)
            for (pn, pt), t in zip(params, ts):
                if pt != t:
                    raise SmtError('ill-sorted', 'argument of %s' % name)
            return instantiate(body, params, args)
        if name in LEGACY:
            self.nonstandard.append(('legacy-symbol', name))
            name = LEGACY[name]
        if name == 'pow':
            self.nonstandard.append(('non-smtlib-symbol', 'pow'))
        r = self.builtin(name, args, ts)
        self.typ(r)
        return r

    def builtin(self, name, a, ts):
        n = len(a)

        def need(c, msg='arity/sort of ' + name):
            if not c:
                raise SmtError('ill-sorted', msg)

        def lassoc(op):
            need(n >= 2)
            r = a[0]
            for x in a[1:]:
                r = (op, None, (r, x))
            return r

        def chain(mk):
            need(n >= 2)
            parts = [mk(a[i], a[i + 1]) for i in range(n - 1)]
            return parts[0] if len(parts) == 1 else ('and', None,
                                                     tuple(parts))
        if name == 'not':
            need(n == 1)
            return ('not', None, (a[0],))
        if name in ('and', 'or'):
            need(n >= 1)
            return a[0] if n == 1 else (name, None, tuple(a))
        if name == 'xor':
            r = a[0]
            need(n >= 2)
            for x in a[1:]:
                r = ('not', None, (('iff', None, (r, x)),))
            return r
        if name == '=>':
            need(n >= 2)
            r = a[-1]
            for x in reversed(a[:-1]):
                r = ('implies', None, (x, r))
            return r
        if name == '=':
            need(n >= 2 and all(t == ts[0] for t in ts))
            if ts[0] == B.BOOL:
                return chain(lambda x, y: ('iff', None, (x, y)))
            return chain(lambda x, y: ('eq', None, (x, y)))
        if name == 'distinct':
            need(n >= 2 and all(t == ts[0] for t in ts))
            parts = []
            for i in range(n):
                for j in range(i + 1, n):
                    e = ('iff' if ts[0] == B.BOOL else 'eq', None,
                         (a[i], a[j]))
                    parts.append(('not', None, (e,)))
            return parts[0] if len(parts) == 1 else ('and', None,
                                                     tuple(parts))
        if name == 'ite':
            need(n == 3)
            return ('ite', None, tuple(a))
        if name in ('+', '*'):
            need(n >= 2)
            return ('plus' if name == '+' else 'times', None, tuple(a))
        if name == '-':
            need(n >= 1)
            if n == 1:
                need(ts[0] in (B.INT, B.REAL))
                if a[0][0] in ('int', 'real'):
                    return (a[0][0], -a[0][1], ())
                m1 = B.Int(-1) if ts[0] == B.INT else B.Real(-1)
                return ('times', None, (m1, a[0]))
            return lassoc('minus')
        if name == '/':
            need(n >= 2)
            # literal form of a rational constant: (/ n m) over numerals
            if n == 2 and a[0][0] in ('int', 'real') and \
                    a[1][0] in ('int', 'real') and a[1][1] != 0 and \
                    (ts[0] == B.INT or ts[1] == B.INT):
                return B.Real(Fraction(a[0][1]) / Fraction(a[1][1]))
            need(all(t == B.REAL for t in ts), '/ on non-Real arguments')
            return lassoc('div')
        if name == 'div':
            need(n >= 2 and all(t == B.INT for t in ts))
            return lassoc('div')
        if name == 'mod':
            need(n == 2 and ts == [B.INT, B.INT])
            return ('minus', None, (a[0], ('times', None, (
                a[1], ('div', None, (a[0], a[1]))))))
        if name == 'abs':
            need(n == 1 and ts[0] == B.INT)
            return ('ite', None, (('lt', None, (a[0], B.Int(0))),
                                  ('times', None, (B.Int(-1), a[0])), a[0]))
        if name in ('<=', '<', '>=', '>'):
            need(n >= 2)
            mk = {'<=': lambda x, y: ('le', None, (x, y)),
                  '<': lambda x, y: ('lt', None, (x, y)),
                  '>=': lambda x, y: ('le', None, (y, x)),
                  '>': lambda x, y: ('lt', None, (y, x))}[name]
            return chain(mk)
        if name == 'to_real':
            need(n == 1 and ts[0] == B.INT)
            if a[0][0] == 'int':
                return B.Real(a[0][1])
            return ('toreal', None, (a[0],))
        if name in ('to_int', 'is_int', 'str.<', 'str.<='):
            raise SmtError('unsupported', name)
        if name == 'pow':
            need(n == 2)
            return ('pow', None, tuple(a))
        if name == 'select':
            need(n == 2)
            return ('select', None, tuple(a))
        if name == 'store':
            need(n == 3)
            return ('store', None, tuple(a))
        BVBIN = {'bvand': 'bvand', 'bvor': 'bvor', 'bvxor': 'bvxor',
                 'bvadd': 'bvadd', 'bvmul': 'bvmul'}
        if name in BVBIN:
            return lassoc(BVBIN[name])
        BV2 = {'bvsub': 'bvsub', 'bvudiv': 'bvudiv', 'bvurem': 'bvurem',
               'bvshl': 'bvshl', 'bvlshr': 'bvlshr', 'bvashr': 'bvashr',
               'bvsdiv': 'bvsdiv', 'bvsrem': 'bvsrem', 'bvult': 'bvult',
               'bvule': 'bvule', 'bvslt': 'bvslt', 'bvsle': 'bvsle',
               'bvcomp': 'bvcomp'}
        if name in BV2:
            need(n == 2)
            return (BV2[name], None, tuple(a))
        if name in ('bvugt', 'bvuge', 'bvsgt', 'bvsge'):
            need(n == 2)
            op = {'bvugt': 'bvult', 'bvuge': 'bvule', 'bvsgt': 'bvslt',
                  'bvsge': 'bvsle'}[name]
            return (op, None, (a[1], a[0]))
        if name in ('bvnand', 'bvnor', 'bvxnor'):
            need(n == 2)
            op = {'bvnand': 'bvand', 'bvnor': 'bvor', 'bvxnor': 'bvxor'}[name]
            return ('bvnot', None, ((op, None, tuple(a)),))
        if name in ('bvnot', 'bvneg'):
            need(n == 1)
            return (name, None, tuple(a))
        if name == 'concat':
            return lassoc('concat')
        if name == 'bv2nat':
            need(n == 1)
            return ('bv2nat', None, tuple(a))
        if name == 'bvsmod':
            need(n == 2 and ts[0][0] == 'BV' and ts[0] == ts[1])
            return bvsmod_def(a[0], a[1], ts[0][1])
        S = {'str.len': ('strlen', 1), 'str.at': ('strcharat', 2),
             'str.substr': ('strsubstr', 3), 'str.prefixof': ('strprefixof',
                                                              2),
             'str.suffixof': ('strsuffixof', 2),
             'str.contains': ('strcontains', 2),
             'str.indexof': ('strindexof', 3),
             'str.replace': ('strreplace', 3), 'str.to_int': ('strtoint', 1),
             'str.from_int': ('inttostr', 1)}
        if name in S:
            need(n == S[name][1])
            return (S[name][0], None, tuple(a))
        if name == 'str.++':
            need(n >= 2)
            return ('strconcat', None, tuple(a))
        raise SmtError('unsupported', 'symbol %s' % name)

    # ---- commands ----------------------------------------------------------
    def run(self, text):
        for c in parse_sexprs(tokenize(text)):
            self.command(c)
        return self

    def command(self, c):
        if not (isinstance(c, list) and c and isinstance(c[0], Tok)
                and c[0].kind == 'sym'):
            raise SmtError('syntax', 'command expected')
        k = c[0].val
        if k == 'set-logic':
            if len(c) != 2 or not is_sym(c[1]):
                raise SmtError('syntax', 'set-logic')
            if self.logic_set:
                raise SmtError('syntax', 'set-logic twice')
            self.logic = Logic(c[1].val)
            self.logic_set = True
            self.commands.append((k, c[1].val))
        elif k in ('set-option', 'set-info', 'get-info', 'get-option',
                   'echo'):
            self.commands.append((k, None))
        elif k == 'declare-sort':
            if len(c) != 3 or not is_sym(c[1]):
                raise SmtError('syntax', 'declare-sort')
            ar = 0
            if len(c) == 3:
                if not (isinstance(c[2], Tok) and c[2].kind == 'num'):
                    raise SmtError('syntax', 'declare-sort arity')
                ar = c[2].val
            if self.lookup_sort(c[1].val) is not None or c[1].val in (
                    'Bool', 'Int', 'Real', 'String', 'Array', 'BitVec'):
                raise SmtError('redeclared-sort', c[1].val)
            self.sort_levels[-1][c[1].val] = ar
            self.commands.append((k, (c[1].val, ar)))
        elif k == 'define-sort':
            if len(c) != 4 or not is_sym(c[1]) or not isinstance(c[2], list):
                raise SmtError('syntax', 'define-sort')
            if self.lookup_sort(c[1].val) is not None:
                raise SmtError('redeclared-sort', c[1].val)
            ps = [p.val for p in c[2]]
            body = self.sort(c[3], dict((p, ('P', p)) for p in ps))
            self.sort_levels[-1][c[1].val] = ('macro', ps, body)
            self.commands.append((k, c[1].val))
        elif k == 'declare-fun':
            if len(c) != 4 or not isinstance(c[2], list):
                raise SmtError('syntax', 'declare-fun')
            self.check_new_name(c[1])
            ps = [self.sort(s) for s in c[2]]
            ret = self.sort(c[3])
            t = B.FUN(ret, ps) if ps else ret
            self.fun_levels[-1][c[1].val] = ('decl', t)
            self.commands.append((k, (c[1].val, t)))
        elif k == 'declare-const':
            if len(c) != 3:
                raise SmtError('syntax', 'declare-const takes a symbol and '
                               'a sort')
            self.check_new_name(c[1])
            t = self.sort(c[2])
            self.fun_levels[-1][c[1].val] = ('decl', t)
            self.commands.append((k, (c[1].val, t)))
        elif k == 'define-fun':
            if len(c) != 5 or not isinstance(c[2], list):
                raise SmtError('syntax', 'define-fun')
            self.check_new_name(c[1])
            env = {}
            params = []
            for sv in c[2]:
                if not (isinstance(sv, list) and len(sv) == 2
                        and isinstance(sv[0], Tok) and sv[0].kind == 'sym'):
                    raise SmtError('syntax', 'define-fun parameter')
                t = self.sort(sv[1])
                nm = self.fresh(sv[0].val)
                params.append((nm, t))
                env[sv[0].val] = B.Sym(nm, t)
            ret = self.sort(c[3])
            body = self.term(c[4], env)
            if self.typ(body) != ret:
                raise SmtError('ill-sorted', 'define-fun body sort')
            self.fun_levels[-1][c[1].val] = ('def', params, ret, body)
            self.commands.append((k, (c[1].val, params, ret, body)))
        elif k == 'assert':
            if len(c) != 2:
                raise SmtError('syntax', 'assert')
            b = self.term(c[1], {})
            if self.typ(b) != B.BOOL:
                raise SmtError('ill-sorted', 'asserted term is not Bool')
            self.assertions[-1].append(b)
            self.commands.append((k, b))
        elif k == 'assert-soft':
            b = self.term(c[1], {})
            if self.typ(b) != B.BOOL:
                raise SmtError('ill-sorted', 'soft term is not Bool')
            self.commands.append((k, b))
        elif k in ('push', 'pop'):
            n = 1
            if len(c) == 2:
                if not (isinstance(c[1], Tok) and c[1].kind == 'num'):
                    raise SmtError('syntax', k)
                n = c[1].val
            elif len(c) != 1:
                raise SmtError('syntax', k)
            if k == 'push':
                for _ in range(n):
                    self.sort_levels.append({})
                    self.fun_levels.append({})
                    self.assertions.append([])
            else:
                if n > len(self.assertions) - 1:
                    raise SmtError('stack', 'pop %d beyond depth %d' % (
                        n, len(self.assertions) - 1))
                for _ in range(n):
                    self.sort_levels.pop()
                    self.fun_levels.pop()
                    self.assertions.pop()
            self.commands.append((k, n))
        elif k == 'reset-assertions':
            self.sort_levels = self.sort_levels[:1]
            self.fun_levels = self.fun_levels[:1]
            self.assertions = [[]]
            # global declarations option is off by default: level-0
            # declarations go away as well
            self.sort_levels = [dict()]
            self.fun_levels = [dict()]
            self.commands.append((k, None))
        elif k in ('check-sat', 'get-model', 'exit', 'get-assertions',
                   'get-unsat-core', 'get-objectives', 'get-assignment',
                   'get-proof', 'get-unsat-assumptions', 'reset'):
            if len(c) != 1:
                raise SmtError('syntax', k)
            if k == 'reset':
                cmds = self.commands
                self.__init__(self.strict_names,
                              decode_unicode=self.decode_unicode)
                self.commands = cmds
            self.commands.append((k, None))
        elif k == 'check-sat-assuming':
            ts = [self.term(t, {}) for t in c[1]]
            self.commands.append((k, ts))
        elif k == 'get-value':
            if len(c) != 2 or not isinstance(c[1], list):
                raise SmtError('syntax', 'get-value')
            ts = [self.term(t, {}) for t in c[1]]
            self.commands.append((k, ts))
        elif k in ('minimize', 'maximize'):
            b = self.term(c[1], {})
            self.commands.append((k, b))
        elif k in ('minmax', 'maxmin'):
            ts = [self.term(t, {}) for t in c[1:]
                  if not (isinstance(t, Tok) and t.kind == 'kw')]
            self.commands.append((k, ts))
        else:
            raise SmtError('unknown-command', k)

    def live_assertions(self):
        return [b for lv in self.assertions for b in lv]

    def declared(self):
        out = {}
        for lv in self.fun_levels:
            for n, d in lv.items():
                if d[0] == 'decl':
                    out[n] = d[1]
        return out


def instantiate(body, params, args):
    m = dict((p, a) for p, a in zip(params, args))
    memo = {}

    def go(b):
        k = id(b)
        if k in memo:
            return memo[k]
        op, pl, kids = b
        if op == 'sym' and pl in m:
            r = m[pl]
        else:
            nk = tuple(go(c) for c in kids)
            r = b if all(x is y for x, y in zip(nk, kids)) else (op, pl, nk)
        memo[k] = r
        return r
    return go(body)


def bvsmod_def(s, t, m):
    """SMT-LIB definition of bvsmod (written from the standard)."""
    z1 = B.BVc(0, 1)
    zm = B.BVc(0, m)
    msb_s = ('extract', (m - 1, m - 1), (s,))
    msb_t = ('extract', (m - 1, m - 1), (t,))
    s_pos = ('eq', None, (msb_s, z1))
    t_pos = ('eq', None, (msb_t, z1))
    abs_s = ('ite', None, (s_pos, s, ('bvneg', None, (s,))))
    abs_t = ('ite', None, (t_pos, t, ('bvneg', None, (t,))))
    u = ('bvurem', None, (abs_s, abs_t))
    nu = ('bvneg', None, (u,))
    return ('ite', None, (
        ('eq', None, (u, zm)), u,
        ('ite', None, (
            ('and', None, (s_pos, t_pos)), u,
            ('ite', None, (
                ('and', None, (('not', None, (s_pos,)), t_pos)),
                ('bvadd', None, (nu, t)),
                ('ite', None, (
                    ('and', None, (s_pos, ('not', None, (t_pos,)))),
                    ('bvadd', None, (u, t)), nu))))))))


def read_script(text, **kw):
    return Reader(**kw).run(text)


def read_term(text, decls, logic=None):
    """Parse one term given declarations {name: type}."""
    r = Reader()
    if logic:
        r.logic = Logic(logic)
    for n, t in decls.items():
        r.fun_levels[0][n] = ('decl', t)
    xs = parse_sexprs(tokenize(text))
    if len(xs) != 1:
        raise SmtError('syntax', 'exactly one term expected')
    b = r.term(xs[0], {})
    r.typ(b)
    return b, r
