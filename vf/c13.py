"""C13 - detected logic covers the formula; logic ordering / selection."""
import itertools
import random
import warnings

from . import bp as B
from . import gen as G
from . import judge as J
from . import monitors as M
from . import common
from .c04 import canon

PROP = 'C13'


# --------------------------------------------------------------------------
# (a) independent feature extraction
# --------------------------------------------------------------------------
def sort_features(t, acc):
    k = t[0]
    if k == 'Int':
        acc.add('integer_arithmetic')
    elif k == 'Real':
        acc.add('real_arithmetic')
    elif k == 'BV':
        acc.add('bit_vectors')
    elif k == 'String':
        acc.add('strings')
    elif k == 'Array':
        acc.add('arrays')
        sort_features(t[1], acc)
        sort_features(t[2], acc)
    elif k == 'U':
        acc.add('custom_type')
        for a in (t[2] if len(t) > 2 else ()):
            sort_features(a, acc)
    elif k == 'Fun':
        acc.add('uninterpreted')
        sort_features(t[1], acc)
        for p in t[2]:
            sort_features(p, acc)


def has_symbol(b, memo):
    """Contains a *free* symbol or a function application.  (A closed term
    - e.g. an ITE on a closed quantified condition - denotes a constant:
    multiplying by it is linear, which is also pySMT's documented rule.)"""
    if id(b) in memo:
        return memo[id(b)]
    r = bool(B.free_syms(b)) or B.has_op(b, ('app',))
    memo[id(b)] = r
    return r


def features(b):
    """-> (required flags, quantified?, nonlinear?, int_non_dl, real_non_dl)"""
    req = set()
    quant = False
    nonlinear = False
    non_dl = set()
    tm = {}
    hs = {}
    for s in B.subterms(b):
        op, pl, kids = s
        try:
            t = B.typeof(s, tm)
            sort_features(t, req)
        except B.IllTyped:
            t = None
        if op == 'sym':
            sort_features(pl[1], req)
        elif op == 'app':
            sort_features(pl[1], req)
        elif op in ('forall', 'exists'):
            quant = True
            for (_, vt) in pl:
                sort_features(vt, req)
        elif op == 'arrayval':
            req.add('arrays')
            req.add('arrays_const')
            sort_features(pl, req)
        elif op == 'times':
            if sum(1 for c in kids if has_symbol(c, hs)) >= 2:
                nonlinear = True
        elif op == 'div':
            if has_symbol(kids[1], hs) or (kids[1][0] in ('int', 'real')
                                           and kids[1][1] == 0):
                nonlinear = True
        elif op == 'pow':
            nonlinear = True
        # a difference over three terms: (x - y) against a non-constant, or
        # a difference of a difference (kept apart: its own mechanism key)
        def _const(x):
            return x[0] in ('int', 'real')
        if op in ('le', 'lt', 'eq') and len(kids) == 2:
            for a_, b_ in ((kids[0], kids[1]), (kids[1], kids[0])):
                if a_[0] == 'minus' and not _const(b_) and not any(
                        _const(c) for c in a_[2]):
                    try:
                        ta = B.typeof(a_, tm)
                    except B.IllTyped:
                        ta = None
                    if ta == B.INT:
                        non_dl.add('minus3:integer_difference')
                    elif ta == B.REAL:
                        non_dl.add('minus3:real_difference')
        if op == 'minus' and any(c[0] == 'minus' and not any(
                _const(d) for d in c[2]) for c in kids) and not any(
                    _const(c) for c in kids):
            if t == B.INT:
                non_dl.add('minus3:integer_difference')
            elif t == B.REAL:
                non_dl.add('minus3:real_difference')
        if op in ('plus', 'times', 'div', 'toreal') and t is not None:
            if t == B.INT or op == 'toreal':
                non_dl.add('integer_difference')
            if t == B.REAL or op == 'toreal':
                non_dl.add('real_difference')
    return req, quant, nonlinear, non_dl


SETTER_CALLS = [('set_difference_logic', True), ('set_lira', True),
                ('set_linear', False), ('set_strings', True),
                ('set_arrays', True), ('set_arrays_const', True),
                ('set_difference_logic', False), ('set_lira', False),
                ('set_linear', True), ('set_strings', False),
                ('set_arrays_const', False)] * 2
NAMED_THEORIES = {}


def snapshot_named_theories():
    import pysmt.logics as L
    for lg in L.LOGICS:
        NAMED_THEORIES[lg.name] = dict(vars(lg.theory))


def check_theory_setters(rep):
    """set_* on the theory of every named logic returns a new object, leaves
    the receiver alone and changes only the fields it is named for."""
    import pysmt.logics as L
    allowed = {'set_difference_logic': {'integer_difference',
                                        'real_difference'},
               'set_lira': {'integer_arithmetic', 'real_arithmetic'},
               'set_linear': {'linear'}, 'set_strings': {'strings'},
               'set_arrays': {'arrays'},
               'set_arrays_const': {'arrays', 'arrays_const'}}
    for lg in sorted(set(L.LOGICS) | set(L.PYSMT_LOGICS),
                     key=lambda x: x.name):
        t = lg.theory
        snap = dict(vars(t))
        for setter, val in SETTER_CALLS[:11]:
            try:
                r = getattr(t, setter)(val)
            except AssertionError:
                continue
            rep.count('setter_calls_checked')
            rep.case(key=('setter', lg.name, setter, val))
            changed = set(k for k in snap if vars(r).get(k) != snap[k])
            if r is t or dict(vars(t)) != snap:
                rep.violation('C13/setter-mutates/%s' % setter,
                              '%s.theory.%s(%r) changed the theory of the '
                              'named logic: %s' % (lg.name, setter, val, t),
                              {'logic': lg.name, 'setter': setter})
                for k, v in snap.items():
                    setattr(t, k, v)
            elif not changed <= allowed[setter]:
                rep.violation('C13/setter-result/%s' % setter,
                              '%s.theory.%s(%r) also changes %s' % (
                                  lg.name, setter, val,
                                  sorted(changed - allowed[setter])),
                              {'logic': lg.name, 'setter': setter})


def check_detection(rep, b, j):
    from pysmt.environment import get_env
    from pysmt.oracles import get_logic
    from pysmt.smtlib.script import smtlibscript_from_formula
    import pysmt.smtlib.commands as smtcmd
    env = get_env()
    try:
        with warnings.catch_warnings():
            warnings.simplefilter('ignore')
            f = B.build(b, env)
    except Exception:
        rep.count('build_rejected')
        return
    fb = canon(B.describe(f))
    req, quant, nonlinear, non_dl = features(fb)
    sk = J.shape_key(fb, 1)
    rep.case(key=hash(fb), sample='%s: requires %s%s%s' % (
        B.show(fb, 120), sorted(req), ' quantified' if quant else '',
        ' nonlinear' if nonlinear else '') if j % 311 == 0 else None)

    def bad(what, flag, msg):
        rep.violation('%s/%s/%s/%s' % (PROP, what, flag, sk), msg,
                      {'bp': B.to_json(fb), 'kind': what})

    from pysmt.exceptions import NoLogicAvailableError
    lg = None
    try:
        th = env.theoryo.get_theory(f)
        try:
            lg = get_logic(f, env)
        except NoLogicAvailableError:
            # the combination of theories is outside every named logic
            rep.count('no_named_logic')
    except Exception as e:
        bad('detect-raises', common.exc_name(e), 'get_logic(%s) raised %r' % (
            B.show(fb, 150), e))
        return
    rep.count('detections_compared')
    # a caller derives variants of the theory it was handed (the set_*
    # methods are documented to return copies): detection is asked again
    before = (dict(vars(th)), lg,
              dict(vars(lg.theory)) if lg is not None else None)
    for setter, val in SETTER_CALLS[j % len(SETTER_CALLS):][:3]:
        try:
            getattr(th, setter)(val)
            if lg is not None:
                getattr(lg.theory, setter)(val)
        except AssertionError:
            pass
    try:
        th2 = env.theoryo.get_theory(f)
        try:
            lg2 = get_logic(f, env)
        except NoLogicAvailableError:
            lg2 = None
    except Exception as e:
        bad('detect-raises', common.exc_name(e), 'second get_logic(%s) '
            'raised %r' % (B.show(fb, 150), e))
        return
    rep.count('detections_repeated_after_setters')
    if dict(vars(th2)) != before[0] or lg2 is not before[1] or \
            (lg is not None and dict(vars(lg.theory)) != before[2]):
        bad('setter-mutates', 'theory',
            'after calling set_* methods on the theory / logic returned for '
            '%s, detection answers %s / %s (before: %s / %s)' % (
                B.show(fb, 150), th2, lg2, before[0], before[1]))
        return
    targets = [('theory', th, None)]
    if lg is not None:
        rep.count('logics_compared')
        targets.append(('logic', lg.theory, lg))
    try:
        if lg is None:
            raise NoLogicAvailableError('none')
        with warnings.catch_warnings():
            warnings.simplefilter('ignore')
            sc = smtlibscript_from_formula(f)
        sl = [c.args[0] for c in sc.commands if c.name == smtcmd.SET_LOGIC][0]
        if hasattr(sl, 'theory'):
            targets.append(('script-logic', sl.theory, sl))
            rep.count('script_logics_compared')
    except NoLogicAvailableError:
        pass
    except Exception as e:
        bad('script-raises', common.exc_name(e),
            'smtlibscript_from_formula(%s) raised %r' % (B.show(fb, 150), e))
    for what, theory, logic in targets:
        for flag in sorted(req):
            if what == 'script-logic' and flag == 'custom_type':
                # SMT-LIB logics allow sort declarations wherever they allow
                # free symbols; pySMT models this flag only for its own
                # logics
                continue
            if what == 'script-logic' and flag == 'arrays_const':
                continue
            if not getattr(theory, flag):
                bad(what + '-misses', flag,
                    '%s of %s is %s: does not enable %s' % (
                        what, B.show(fb, 150), logic or theory, flag))
        if nonlinear and theory.linear and (
                theory.integer_arithmetic or theory.real_arithmetic
                or 'integer_arithmetic' in req or 'real_arithmetic' in req):
            bad(what + '-misses', 'nonlinear',
                '%s of %s is %s: linear, but the formula is not' % (
                    what, B.show(fb, 150), logic or theory))
        for flag in sorted(non_dl):
            if flag.startswith('minus3:'):
                fl = flag.split(':')[1]
                if logic is not None and getattr(theory, fl):
                    rep.violation(
                        'C13/%s-difference/three-term-difference/%s' % (
                            what, fl),
                        '%s of %s is %s: labelled difference logic although '
                        'an atom relates a difference to a third term' % (
                            what, B.show(fb, 150), logic),
                        {'bp': B.to_json(fb), 'kind': what})
                continue
            # difference logic is a restriction of a *logic*: the raw theory
            # object may keep the flag as long as no DL logic is selected
            if logic is not None and getattr(theory, flag):
                bad(what + '-difference', flag,
                    '%s of %s is %s: labelled difference logic although it '
                    'contains +, *, / or to_real' % (
                        what, B.show(fb, 150), logic or theory))
        if logic is not None and quant and logic.quantifier_free:
            bad(what + '-misses', 'quantifiers',
                '%s of %s is quantifier-free %s' % (what, B.show(fb, 150),
                                                    logic))


def special_formulas():
    i0, i1 = B.Sym('i0', B.INT), B.Sym('i1', B.INT)
    r0, r1 = B.Sym('r0', B.REAL), B.Sym('r1', B.REAL)
    p = B.Sym('p0', B.BOOL)
    s0 = B.Sym('s0', B.STRING)
    b8 = B.Sym('b8_0', B.BV(8))
    a = B.Sym('a0', G.A_II)
    # symbols of parametric declared sorts: the sort arguments bring their
    # theories with them
    PIB = ('U', 'Pair', (B.INT, B.BV(4)))
    LR = ('U', 'List', (B.REAL,))
    LA = ('U', 'List', (G.A_II,))
    par = []
    for t in (PIB, LR, LA, ('U', 'List', (B.STRING,)),
              ('U', 'Pair', (LR, B.BV(2)))):
        x_, y_ = B.Sym('pq0', t), B.Sym('pq1', t)
        par.append(('eq', None, (x_, y_)))
        par.append(('exists', (('pq0', t),), (('eq', None, (x_, y_)),)))
        par.append(B.App('pf', B.FUN(B.BOOL, (t,)), (x_,)))
        par.append(('eq', None, (('select', None, (
            B.Sym('pa', B.ARR(B.INT, t)), i0)), y_)))
    dl3 = []
    for (x_, y_, z_, c_) in ((i0, i1, B.Sym('i2', B.INT), B.Int(3)),
                             (r0, r1, B.Sym('r2', B.REAL), B.Real(3))):
        m = lambda a, b: ('minus', None, (a, b))
        dl3 += [('le', None, (m(x_, y_), z_)), ('lt', None, (z_, m(x_, y_))),
                ('le', None, (m(m(x_, y_), z_), c_)),
                ('le', None, (m(x_, m(y_, z_)), c_)),
                ('eq', None, (m(x_, y_), m(y_, z_))),
                ('le', None, (m(x_, y_), c_)), ('le', None, (x_, y_))]
    out = par + dl3 + [
        ('eq', None, (('inttostr', None, (i0,)), ('inttostr', None, (i1,)))),
        ('eq', None, (('inttostr', None, (i0,)), s0)),
        ('le', None, (('strlen', None, (s0,)), i0)),
        ('le', None, (('strtoint', None, (s0,)), i0)),
        ('le', None, (('strindexof', None, (s0, s0, i0)), i0)),
        ('strprefixof', None, (('strcharat', None, (s0, i0)), s0)),
        ('le', None, (('div', None, (B.Real(5), r0)), r1)),
        ('le', None, (('div', None, (r0, r1)), r1)),
        ('le', None, (('div', None, (i0, B.Int(3))), i1)),
        ('le', None, (('div', None, (B.Int(7), i0)), i1)),
        ('le', None, (('div', None, (i0, B.Int(0))), i1)),
        ('le', None, (('minus', None, (('div', None, (i0, B.Int(2))), i1)),
                      B.Int(3))),
        ('le', None, (('minus', None, (i0, i1)), B.Int(3))),
        ('le', None, (('minus', None, (r0, r1)), B.Real(3))),
        ('le', None, (('plus', None, (i0, B.Int(1))), i1)),
        ('le', None, (('times', None, (B.Int(2), i0)), i1)),
        ('le', None, (('times', None, (i0, i1)), i1)),
        ('le', None, (('times', None, (i0, i0)), i1)),
        ('le', None, (('pow', None, (r0, B.Real(2))), r1)),
        ('le', None, (('toreal', None, (i0,)), r1)),
        ('le', None, (('bv2nat', None, (b8,)), i1)),
        ('le', None, (B.Int(0), ('bv2nat', None, (b8,)))),
        ('forall', (('b8_9', B.BV(8)),), (p,)),
        ('exists', (('uS_9', G.US),), (p,)),
        ('forall', (('s9', B.STRING),), (p,)),
        ('exists', (('i9', B.INT),), (p,)),
        ('forall', (('a9', G.A_II),), (p,)),
        ('eq', None, (a, ('arrayval', B.INT, (B.Int(0),)))),
        ('not', None, (('eq', None, (('arrayval', B.INT, (B.Int(0),)), a)),)),
        ('eq', None, (('bvnot', None, (('select', None, (
            ('arrayval', B.BV(8), (B.BVc(0, 8),)), b8)),)), b8)),
        ('eq', None, (('ite', None, (('lt', None, (r0, r1)), B.Int(1),
                                     B.Int(2))), i0)),
        ('eq', None, (('ite', None, (('bvult', None, (b8, b8)), p, p)), p))
        if False else ('iff', None, (('ite', None, (
            ('bvult', None, (b8, B.BVc(1, 8))), p, p)), p)),
        ('eq', None, (('ite', None, (('lt', None, (
            ('times', None, (r0, r1)), B.Real(2))), B.Real(0), B.Real(1))),
            r0)),
        ('eq', None, (B.App('f', B.FUN(B.INT, (B.BV(8),)), (b8,)), i0)),
        B.App('g', B.FUN(B.BOOL, (G.US,)), (B.Sym('uS_0', G.US),)),
        ('eq', None, (('select', None, (
            B.Sym('aa', B.ARR(B.INT, B.ARR(B.BV(8), B.REAL))), i0)),
            B.Sym('ab', B.ARR(B.BV(8), B.REAL)))),
    ]
    return out


# --------------------------------------------------------------------------
# (b) order axioms, exhaustive over pysmt.logics.LOGICS
# --------------------------------------------------------------------------
def check_order(rep):
    import pysmt.logics as L
    logics = sorted(L.LOGICS, key=lambda l: l.name)
    n = len(logics)
    le = [[logics[i] <= logics[j] for j in range(n)] for i in range(n)]
    rep.count('logic_pairs', n * n)
    sig = lambda l: (repr(l.theory), l.quantifier_free)
    # the quantified version of a logic allows quantifiers and covers it
    from pysmt.exceptions import NoLogicAvailableError
    for lg in logics:
        rep.count('quantified_versions_checked')
        try:
            q = lg.get_quantified_version()
        except NoLogicAvailableError:
            continue
        if q.quantifier_free or not (lg <= q):
            rep.violation('C13/selection/quantified-version',
                          '%s.get_quantified_version() is %s' % (lg, q),
                          {'logic': lg.name})
    for i in range(n):
        if not le[i][i]:
            rep.violation('C13/order/reflexivity', '%s <= %s is False' % (
                logics[i], logics[i]))
        for j in range(n):
            a, b_ = logics[i], logics[j]
            if le[i][j] and le[j][i] and sig(a) != sig(b_):
                rep.violation('C13/order/antisymmetry',
                              '%s <= %s <= %s but they differ' % (a, b_, a))
            if (a < b_) != (le[i][j] and a != b_) or \
                    (a >= b_) != le[j][i] or (a > b_) != (le[j][i]
                                                          and a != b_):
                rep.violation('C13/order/derived-comparisons',
                              '<, >=, > inconsistent with <= on %s, %s' % (
                                  a, b_))
    nt = 0
    for i in range(n):
        for j in range(n):
            if not le[i][j]:
                continue
            for k in range(n):
                nt += 1
                if le[j][k] and not le[i][k]:
                    rep.violation('C13/order/transitivity',
                                  '%s <= %s <= %s but not %s <= %s' % (
                                      logics[i], logics[j], logics[k],
                                      logics[i], logics[k]))
    rep.count('logic_triples', n * n * n)
    # theories
    ths = []
    for l in logics:
        if not any(l.theory == t for t in ths):
            ths.append(l.theory)
    m = len(ths)
    tle = [[ths[i] <= ths[j] for j in range(m)] for i in range(m)]
    for i in range(m):
        if not tle[i][i]:
            rep.violation('C13/theory-order/reflexivity', '%s' % ths[i])
        for j in range(m):
            if tle[i][j] and tle[j][i] and ths[i] != ths[j]:
                rep.violation('C13/theory-order/antisymmetry',
                              '%s / %s' % (ths[i], ths[j]))
            c = ths[i].combine(ths[j])
            rep.count('theory_combines')
            if not (ths[i] <= c and ths[j] <= c):
                rep.violation('C13/combine/not-upper-bound',
                              'combine(%s ; %s) = %s' % (ths[i], ths[j], c))
            for k in range(m):
                if tle[i][j] and tle[j][k] and not tle[i][k]:
                    rep.violation('C13/theory-order/transitivity',
                                  '%s ; %s ; %s' % (ths[i], ths[j], ths[k]))
            # copies / setters do not lose information
            cp = ths[i].copy()
            if cp != ths[i] or not (ths[i] <= cp):
                rep.violation('C13/theory/copy', 'copy of %s is %s' % (
                    ths[i], cp))
    rep.count('theories', m)
    rep.case(key='order-axioms', sample='%d logics, %d theories: all pairs '
             'and triples' % (n, m))


# --------------------------------------------------------------------------
# (c) get_closer_logic / most_generic_logic / factory selection
# --------------------------------------------------------------------------
def solver_logic_lists():
    """The LOGICS declarations of the solver classes (mirrors of the class
    attributes; the native modules cannot be imported here)."""
    import pysmt.logics as L
    P = L.PYSMT_LOGICS
    out = {
        'bdd': [L.QF_BOOL, L.BOOL],
        'bdd-qe': [L.BOOL],
        'btor': [L.QF_BV, L.QF_UFBV, L.QF_ABV, L.QF_AUFBV, L.QF_AX] + [
            l for l in L.ARRAYS_CONST_LOGICS
            if l.name in ('QF_ABV*', 'QF_AUFBV*', 'QF_AX*')],
        'cvc5': (P | {L.AUFLIRA, L.AUFLIA, L.AUFNIRA, L.ALIA}) - frozenset(
            l for l in P if l.theory.arrays_const and l.theory.bit_vectors
            and (l.theory.integer_arithmetic or l.theory.real_arithmetic)),
        'cvc4': P - L.ARRAYS_CONST_LOGICS - set(
            l for l in P if not l.theory.linear),
        'msat-qe': [L.LRA, L.LIA], 'msat-fm': [L.LRA],
        'msat-itp': [L.QF_UFLIA, L.QF_UFLRA, L.QF_BV],
        'pico': [L.QF_BOOL],
        'yices': L.PYSMT_QF_LOGICS - L.ARRAYS_LOGICS - set(
            l for l in L.PYSMT_QF_LOGICS
            if not l.theory.linear or l.theory.strings),
        'z3-qe': [L.LIA, L.LRA], 'z3-itp': [L.QF_UFLIA, L.QF_UFLRA],
        'pysmt': P, 'smtlib2': L.SMTLIB2_LOGICS, 'all': L.LOGICS,
        'qf': L.PYSMT_QF_LOGICS,
    }
    return {k: sorted(v, key=lambda l: l.name) for k, v in out.items()}


def judge_closer(rep, S, t, got, exc, how):
    from pysmt.exceptions import NoLogicAvailableError
    above = [l for l in S if t <= l]
    if exc is not None:
        if above or not isinstance(exc, NoLogicAvailableError):
            rep.violation('C13/closer/raises/%s' % common.exc_name(exc),
                          '%s(%s, %s) raised %r although %s is above' % (
                              how, [str(x) for x in S][:8], t, exc,
                              [str(x) for x in above][:4]))
        else:
            rep.count('closer_no_logic')
        return
    if not above:
        rep.violation('C13/closer/unsupported-accepted',
                      '%s(%s, %s) = %s but nothing in the list is above' % (
                          how, [str(x) for x in S][:8], t, got))
        return
    if not any(got is l or got == l for l in S):
        rep.violation('C13/closer/not-supported',
                      '%s(..., %s) = %s is not in the supported list' % (
                          how, t, got))
        return
    if not (t <= got):
        rep.violation('C13/closer/not-above', '%s(%s, %s) = %s is not above '
                      'the target' % (how, [str(x) for x in S][:8], t, got))
        return
    for k in above:
        if k <= got and not (got <= k):
            rep.violation('C13/closer/not-closest',
                          '%s(%s, %s) = %s but %s is strictly between' % (
                              how, [str(x) for x in S][:8], t, got, k))
            return
    rep.count('closer_checked')


def check_closer(rep):
    import pysmt.logics as L
    logics = sorted(L.LOGICS, key=lambda l: l.name)
    rng = random.Random(rep.seed * 911 + rep.shard)
    lists = []
    for l in logics:
        lists.append([l])
    for a, b_ in itertools.combinations(logics, 2):
        lists.append([a, b_])
    named = solver_logic_lists()
    for k in sorted(named):
        lists.append(named[k])
    nrand = 300 if rep.tier == 'quick' else 2000
    for _ in range(nrand):
        lists.append(rng.sample(logics, rng.randint(1, 12)))
    idx = 0
    for S in lists:
        idx += 1
        if idx % rep.nshards != rep.shard:
            continue
        for t in logics:
            got = exc = None
            try:
                got = L.get_closer_logic(S, t)
            except Exception as e:
                exc = e
            judge_closer(rep, S, t, got, exc, 'get_closer_logic')
        # most_generic_logic
        try:
            mg = L.most_generic_logic(S)
            if not all(x <= mg for x in S) or not any(mg is x for x in S):
                rep.violation('C13/most-generic/not-upper-bound',
                              'most_generic_logic(%s) = %s' % (
                                  [str(x) for x in S][:8], mg))
            rep.count('most_generic_checked')
        except Exception as e:
            tops = [x for x in S if all(y <= x for y in S)]
            sigs = set((repr(x.theory), x.quantifier_free) for x in tops)
            if len(tops) == 1:
                rep.violation('C13/most-generic/raises',
                              'most_generic_logic(%s) raised %r although %s '
                              'is the maximum' % ([str(x) for x in S][:8], e,
                                                  tops[0]))
        rep.case(key=('closer', tuple(x.name for x in S)[:6], len(S)),
                 sample='supported=%s: every target in LOGICS' % (
                     [str(x) for x in S][:6],) if idx % 499 == 0 else None)
    # through the factory with stub solver classes
    if rep.shard == 0:
        check_factory(rep, named, logics)


def check_factory(rep, named, logics):
    from pysmt.environment import get_env
    import pysmt.logics as L
    env = common.fresh_env()
    fac = env.factory
    stubs = {}
    for name, S in named.items():
        stubs[name] = type('Stub_' + name.replace('-', '_'), (object,),
                           {'LOGICS': list(S)})
    for name, cls in stubs.items():
        for t in logics:
            got = exc = None
            try:
                c, lg = fac._get_solver_class({name: cls}, 'Solver',
                                              L.QF_UFLIRA, name=name,
                                              logic=t)
                got = lg
            except Exception as e:
                exc = e
            S = cls.LOGICS
            above = [l for l in S if t <= l]
            if exc is not None:
                if above:
                    rep.violation('C13/factory/raises',
                                  '_get_solver_class(%s, logic=%s) raised '
                                  '%r' % (name, t, exc))
                continue
            judge_closer(rep, S, t, got, None, 'factory(%s)' % name)
            rep.count('factory_selections')
        # unnamed selection over all stubs
    for t in logics:
        try:
            fac.preferences['Solver'] = sorted(stubs)
            c, lg = fac._get_solver_class(dict(stubs), 'Solver', L.QF_UFLIRA,
                                          logic=t)
        except Exception as e:
            if any(t <= l for cl in stubs.values() for l in cl.LOGICS):
                rep.violation('C13/factory/raises-unnamed',
                              'logic=%s raised %r' % (t, e))
            continue
        judge_closer(rep, c.LOGICS, t, lg, None, 'factory(any)')
        rep.count('factory_selections')


def check_entry_points(rep):
    """The factory's one-shot entry points on formulas that the installed
    procedures (Boolean quantifier eliminators only, no solver) cannot
    express: with logic omitted, AUTO or explicit they must refuse, never
    hand the formula over."""
    import pysmt.logics as L
    from pysmt.exceptions import NoSolverAvailableError
    env = common.fresh_env()
    fac = env.factory
    mgr = env.formula_manager
    import pysmt.typing as T
    r = mgr.Symbol('c13_r', T.REAL)
    i = mgr.Symbol('c13_i', T.INT)
    bv = mgr.Symbol('c13_b', T.BVType(4))
    p = mgr.Symbol('c13_p')
    forms = [
        ('LRA', mgr.Exists([r], mgr.And(p, mgr.GT(r, mgr.Real(1))))),
        ('LIA', mgr.ForAll([i], mgr.Or(p, mgr.LE(i, mgr.Int(3))))),
        ('BV', mgr.Exists([bv], mgr.BVULT(bv, mgr.BV(3, 4)))),
        ('mixed', mgr.Exists([p], mgr.And(p, mgr.GT(r, mgr.Real(1))))),
    ]
    for tag, f in forms:
        detected = env.theoryo.get_theory(f)
        for lg_name, kw in (('omitted', {}), ('AUTO', {'logic': L.AUTO}),
                            ('AUTO-name', {'logic': 'Auto'})):
            for name in (None, 'shannon', 'selfsub'):
                for ep in ('qelim',):
                    rep.count('entry_point_calls')
                    try:
                        k = dict(kw)
                        if name:
                            k['solver_name'] = name
                        res = getattr(fac, ep)(f, **k)
                    except NoSolverAvailableError:
                        rep.count('entry_point_refusals')
                        continue
                    except Exception as e:
                        if lg_name == 'AUTO-name':
                            continue     # the spelling may be unknown
                        rep.violation(
                            'C13/entry-point/%s/raises-%s' % (
                                ep, common.exc_name(e)),
                            '%s(%s formula, logic %s, %s) raised %r instead '
                            'of NoSolverAvailableError' % (ep, tag, lg_name,
                                                           name, e))
                        continue
                    rep.violation(
                        'C13/entry-point/%s/handed-over' % ep,
                        '%s(%s formula, logic %s, eliminator %s) was handed '
                        'to a Boolean-only procedure and returned %s' % (
                            ep, tag, lg_name, name, str(res)[:80]))
    rep.case(key='entry-points')


def run(rep):
    M.NODE_MONITOR.install()
    only = rep.only
    if (not only or only == 'entry') and rep.shard == 1 % rep.nshards:
        check_entry_points(rep)
    rng = random.Random(rep.seed * 4241 + rep.shard)
    snapshot_named_theories()
    if (not only or only == 'order') and rep.shard == 0:
        check_theory_setters(rep)
        check_order(rep)
    if not only or only == 'closer':
        check_closer(rep)
    if not only or only == 'detect':
        common.fresh_env()
        j = 0
        if rep.shard == 0:
            for b in special_formulas():
                check_detection(rep, b, j)
                j += 1
        n = 500 if rep.tier == 'quick' else 50000
        cfgs = [G.Cfg(), G.Cfg(quant=False), G.Cfg(pow=True, max_depth=4),
                G.Cfg(arrays=False, max_depth=3), G.Cfg(max_depth=2),
                G.Cfg(qtypes=[B.BV(8), G.US, B.STRING, B.INT, G.A_II],
                      max_depth=3)]
        k = 0
        while k < n and not rep.out_of_time():
            if k % 200 == 0:
                common.fresh_env()
            g = G.Gen(rng, cfgs[k % len(cfgs)])
            check_detection(rep, g.term(B.BOOL), j)
            j += 1
            k += 1
        if k < n:
            rep.notes.append('detection truncated at %d of %d' % (k, n))


def replay(case, rep):
    common.fresh_env()
    snapshot_named_theories()
    c = case.get('case') or {}
    if c.get('bp'):
        check_detection(rep, B.from_json(c['bp']), 0)
    else:
        rep.nshards, rep.shard = 1, 0
        check_order(rep)
        check_closer(rep)
