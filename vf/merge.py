"""Merging of shard reports, verdict, evidence file."""
import json
import os
import time

from . import common

VERIF = common.VERIF


def finish(prop, tier, seed, info, reports, dead, wall, replaying=False):
    known = common.load_known()
    known_keys = {k['key']: k for k in known.get('findings', [])
                  if k.get('property') == prop}
    counters = {}
    samples = []
    distinct = set()
    ndist_extra = 0
    evaluations = 0
    viol = {}
    notes = []
    inconc = []
    for r in reports:
        for k, v in r['counters'].items():
            counters[k] = counters.get(k, 0) + v
        for s in r['samples']:
            if len(samples) < 8:
                samples.append(s)
        if r.get('distinct') is not None:
            distinct.update(r['distinct'])
        else:
            ndist_extra += r['ndistinct']
        evaluations += r['evaluations']
        for v in r['violations']:
            if v['key'] in viol:
                viol[v['key']]['n'] += v['n']
            else:
                viol[v['key']] = dict(v)
        notes += r['notes']
        inconc += r['inconclusive']
    for (k, rc, tail) in dead:
        inconc.append('shard %s ended with %s: %s' % (k, rc, tail[-600:]))
    # minimum-observation rules: a deciding monitor that was never reached
    # (the same minima for both tiers: several deciding counters belong to
    # fixed enumerations that do not grow with the budget)
    required = dict(info.get('require', {}).get('quick', {}))
    # calibrated minima (tools/calibrate.py: 40 % of what the count-bounded
    # quick workload produced on an idle machine), where available
    try:
        with open(os.path.join(common.VERIF, 'data', 'require.json')) as f:
            cal = json.load(f).get(prop, {})
        for k in required:
            if k in cal:
                required[k] = cal[k]
    except (OSError, ValueError):
        pass
    for name, minimum in required.items():
        if counters.get(name, 0) < minimum and not replaying:
            inconc.append('monitor counter %s = %d < required %d' % (
                name, counters.get(name, 0), minimum))
    new = []
    knownhits = []
    for key, v in sorted(viol.items()):
        if key in known_keys:
            knownhits.append((key, v))
        else:
            new.append((key, v))
    rc = 0
    lines = []
    for key, v in knownhits:
        lines.append('KNOWN-FINDING: property=%s %s [%s] (x%d)' % (
            prop, known_keys[key].get('what', v['what']), key, v['n']))
    os.makedirs(os.path.join(common.OUT, 'replays'), exist_ok=True)
    for i, (key, v) in enumerate(new):
        path = os.path.join(common.OUT, 'replays', '%s_%s_%d_%d.json' % (
            prop, tier, seed, i))
        with open(path, 'w') as f:
            json.dump({'property': prop, 'key': key, 'what': v['what'],
                       'seed': seed, 'tier': tier, 'case': v.get('case')},
                      f, indent=1, default=str)
        lines.append('VIOLATION property=%s replay=%s' % (prop, path))
        lines.append('  key=%s  %s (x%d)' % (key, v['what'][:600], v['n']))
        rc = 1
    if rc == 0 and inconc:
        rc = 2
        for w in inconc[:10]:
            lines.append('INCONCLUSIVE property=%s %s' % (prop, w[:800]))
    ndist = len(distinct) + ndist_extra + counters.get('distinct_extra', 0)
    cov = {
        'evaluations': int(evaluations),
        'distinct_nontrivial': int(ndist),
        'rule': info.get('rule', ''),
        'samples': samples or ['(none)'],
        'counters': counters,
        'shards_reporting': len(reports),
        'exhaustive': bool(info.get('exhaustive', {}).get(tier, False)),
        'known_findings_seen': [k for k, _ in knownhits],
        'new_violation_keys': [k for k, _ in new],
        'notes': notes[:20],
        'verdict': {0: 'held on what was observed', 1: 'violated',
                    2: 'inconclusive'}[rc],
    }
    ev = {
        'property_id': prop, 'tier': tier, 'seed': int(seed),
        'level': info.get('level', 'exploration'),
        'coverage': cov,
        'assumptions': info.get('assumptions', []),
        'wall_s': round(wall, 2),
        'violations': len(new),
    }
    if not replaying and not os.environ.get('VERIF_NO_EVIDENCE'):
        os.makedirs(os.path.join(VERIF, 'evidence'), exist_ok=True)
        with open(os.path.join(VERIF, 'evidence', '%s.json' % prop),
                  'w') as f:
            json.dump(ev, f, indent=1, default=str)
    if len(lines) > 60:
        lines = lines[:60] + ['... %d more lines suppressed (see replay '
                              'files / evidence)' % (len(lines) - 60)]
    for l in lines:
        print(l)
    print('%s %s seed=%d: %s; %d evaluations, %d distinct, %d shards, '
          '%.1fs' % (prop, tier, seed, cov['verdict'], evaluations, ndist,
                     len(reports), wall))
    return rc
