"""C18 - optimisation returns the true optimum and restores the solver."""
import itertools
import random
import warnings

from . import bp as B
from . import gen as G
from . import monitors as M
from . import common
from . import refeval as R

PROP = 'C18'
INT_LO, INT_HI = -4, 4


def opt_classes():
    from .brutesolver import classes
    from pysmt.optimization.optimizer import (SUAOptimizerMixin,
                                              IncrementalOptimizerMixin)
    BruteSolver, _ = classes()
    if not hasattr(opt_classes, 'c'):
        class BruteSUA(BruteSolver, SUAOptimizerMixin):
            pass

        class BruteInc(BruteSolver, IncrementalOptimizerMixin):
            pass
        opt_classes.c = {'sua': BruteSUA, 'incremental': BruteInc}
    return opt_classes.c


def tc(v, w):
    return v - 2 ** w if v >= 2 ** (w - 1) else v


class Problem(object):
    """A finite-domain constraint system given as blueprints."""

    def __init__(self, rng):
        self.rng = rng
        self.bools = [B.Sym('p%d' % i, B.BOOL) for i in range(2)]
        self.bvs = [B.Sym('a%d' % i, B.BV(3)) for i in range(2)]
        self.ints = [B.Sym('x%d' % i, B.INT) for i in range(2)]
        self.kind = rng.choice(['int', 'bv', 'mixed', 'bool'])
        self.assertions = []
        r = rng
        if self.kind in ('int', 'mixed'):
            for x in self.ints:
                lo = r.randint(INT_LO, 0)
                hi = r.randint(0, INT_HI)
                self.assertions.append(('le', None, (B.Int(lo), x)))
                self.assertions.append(('le', None, (x, B.Int(hi))))
        for _ in range(r.randint(0, 3)):
            self.assertions.append(self.constraint())
        if r.random() < 0.12:
            # unsatisfiable instance
            p = self.bools[0]
            self.assertions.append(('and', None, (p, ('not', None, (p,)))))

    def int_term(self, d=2):
        r = self.rng
        if d <= 0 or r.random() < 0.4:
            return r.choice(self.ints + [B.Int(r.randint(-2, 3))])
        op = r.choice(['plus', 'minus', 'times_c', 'ite'])
        if op == 'times_c':
            return ('times', None, (B.Int(r.choice([-2, -1, 2, 3])),
                                    self.int_term(d - 1)))
        if op == 'ite':
            return ('ite', None, (self.bool_term(d - 1), self.int_term(d - 1),
                                  self.int_term(d - 1)))
        return (op, None, (self.int_term(d - 1), self.int_term(d - 1)))

    def bv_term(self, d=2):
        r = self.rng
        if d <= 0 or r.random() < 0.4:
            return r.choice(self.bvs + [B.BVc(r.randrange(8), 3)])
        op = r.choice(['bvadd', 'bvsub', 'bvand', 'bvor', 'bvxor', 'bvneg',
                       'ite', 'bvmul'])
        if op == 'bvneg':
            return ('bvneg', None, (self.bv_term(d - 1),))
        if op == 'ite':
            return ('ite', None, (self.bool_term(d - 1), self.bv_term(d - 1),
                                  self.bv_term(d - 1)))
        return (op, None, (self.bv_term(d - 1), self.bv_term(d - 1)))

    def bool_term(self, d=2):
        r = self.rng
        if d <= 0 or r.random() < 0.35:
            kinds = ['b']
            if self.kind in ('int', 'mixed'):
                kinds += ['le', 'eqi']
            if self.kind in ('bv', 'mixed'):
                kinds += ['bvrel']
            k = r.choice(kinds)
            dd = max(0, d - 1)
            if k == 'b':
                return r.choice(self.bools)
            if k == 'le':
                return ('le', None, (self.int_term(dd), self.int_term(dd)))
            if k == 'eqi':
                return ('eq', None, (self.int_term(dd), self.int_term(dd)))
            return (r.choice(['bvult', 'bvsle', 'bvule', 'eq']), None,
                    (self.bv_term(dd), self.bv_term(dd)))
        op = r.choice(['and', 'or', 'not', 'implies', 'iff'])
        if op == 'not':
            return ('not', None, (self.bool_term(d - 1),))
        return (op, None, (self.bool_term(d - 1), self.bool_term(d - 1)))

    def constraint(self):
        return self.bool_term(2)

    def goal_spec(self, allow_maxsmt=True):
        r = self.rng
        kinds = []
        if self.kind in ('int', 'mixed'):
            kinds += ['min_int', 'max_int', 'minmax_int', 'maxmin_int']
        if self.kind in ('bv', 'mixed'):
            kinds += ['min_bv', 'max_bv', 'minmax_bv', 'maxmin_bv']
        if allow_maxsmt:
            kinds += ['maxsmt']
        if not kinds:
            kinds = ['maxsmt'] if allow_maxsmt else []
        if not kinds:
            return None
        k = r.choice(kinds)
        if k in ('min_int', 'max_int'):
            return (k, self.int_term(2), False)
        if k in ('minmax_int', 'maxmin_int'):
            return (k, [self.int_term(1) for _ in range(
                r.choice([1, 2, 2, 2, 2, 3, 4]))], False)
        if k in ('min_bv', 'max_bv'):
            return (k, self.bv_term(2), r.random() < 0.5)
        if k in ('minmax_bv', 'maxmin_bv'):
            return (k, [self.bv_term(1) for _ in range(
                r.choice([1, 2, 2, 2, 2, 3, 4]))], r.random() < 0.5)
        soft = [(self.bool_term(1), r.randint(1, 4))
                for _ in range(r.randint(1, 4))]
        return ('maxsmt', soft, False)

    # ---- reference ------------------------------------------------------
    def symbols(self, extra=()):
        syms = set()
        for a in list(self.assertions) + list(extra):
            syms |= set(B.free_syms(a))
        return sorted(syms)

    def models(self, extra=()):
        syms = self.symbols(extra)
        doms = []
        for (_, t) in syms:
            if t == B.INT:
                doms.append(list(range(INT_LO - 1, INT_HI + 2)))
            else:
                doms.append(R.all_values(t, 64))
        out = []
        for combo in itertools.product(*doms):
            I = dict((s[0], v) for s, v in zip(syms, combo))
            if all(R.evaluate(a, I) for a in self.assertions):
                out.append(I)
        return out


def goal_value(spec, I):
    """Objective value (as a comparable integer: larger is better for max
    goals, the raw value otherwise) and 'direction'."""
    k, t, signed = spec
    if k == 'maxsmt':
        return sum(w for (c, w) in t if R.evaluate(c, I)), 'max'

    def ev(x):
        v = R.evaluate(x, I)
        if k.endswith('_bv') and signed:
            return tc(v, 3)
        return v
    if k.startswith('minmax'):
        return max(ev(x) for x in t), 'min'
    if k.startswith('maxmin'):
        return min(ev(x) for x in t), 'max'
    return ev(t), ('min' if k.startswith('min') else 'max')


def spec_terms(spec):
    k, t, _ = spec
    if k == 'maxsmt':
        return [c for c, _ in t]
    return list(t) if isinstance(t, list) else [t]


def build_goal(spec, env, real_weights):
    from pysmt.optimization.goal import (MinimizationGoal, MaximizationGoal,
                                         MinMaxGoal, MaxMinGoal, MaxSMTGoal)
    k, t, signed = spec
    mgr = env.formula_manager
    if k == 'maxsmt':
        g = MaxSMTGoal(real_weights=real_weights)
        for (c, w) in t:
            g.add_soft_clause(B.build(c, env), mgr.Real(w) if real_weights
                              else mgr.Int(w))
        return g
    if k.startswith('minmax'):
        return MinMaxGoal([B.build(x, env) for x in t], signed)
    if k.startswith('maxmin'):
        return MaxMinGoal([B.build(x, env) for x in t], signed)
    if k.startswith('min'):
        return MinimizationGoal(B.build(t, env), signed)
    return MaximizationGoal(B.build(t, env), signed)


def cost_to_int(cost, spec):
    k, t, signed = spec
    if cost.is_bv_constant():
        return cost.bv_signed_value() if signed else cost.bv_unsigned_value()
    v = cost.constant_value()
    if hasattr(v, 'denominator') and v.denominator == 1:
        return int(v)
    return v


def model_interp(model, syms, env):
    I = {}
    for (n, t) in syms:
        s = env.formula_manager.Symbol(n, B.to_pytype(t, env))
        I[n] = R.const_value(model.get_value(s))
    return I


class Checker(object):
    def __init__(self, rep):
        self.rep = rep
        self.rng = random.Random(rep.seed * 7368787 + rep.shard)

    def bad(self, what, msg, case):
        self.rep.violation('%s/%s' % (PROP, what), msg, case)

    def check_model(self, tag, prob, model, env, extra, case):
        syms = prob.symbols(extra)
        I = model_interp(model, syms, env)
        for a in prob.assertions:
            if not R.evaluate(a, I):
                self.bad(tag + '/model-violates-assertions',
                         'model %s does not satisfy %s' % (
                             {k: R.vrepr(v) for k, v in I.items()},
                             B.show(a, 120)), case)
                return None
        return I

    def run_case(self, j):
        import pysmt.logics as L
        rep = self.rep
        rng = self.rng
        prob = Problem(rng)
        env = common.fresh_env()
        mixin = ['sua', 'incremental'][j % 2]
        strategy = ['linear', 'binary'][(j // 2) % 2]
        mode = ['optimize', 'boxed', 'lexicographic', 'pareto'][(j // 4) % 4]
        order = ['asc', 'desc'][(j // 16) % 2]
        real_w = (strategy == 'linear') and rng.random() < 0.5
        ngoals = 1 if mode == 'optimize' else rng.randint(1, 3)
        specs = []
        for _ in range(ngoals):
            s = prob.goal_spec(allow_maxsmt=mode in ('optimize', 'boxed'))
            if s is None:
                return
            specs.append(s)
        extra = [t for s in specs for t in spec_terms(s)]
        # a soft clause added to the goal object after it has been used
        more = None
        if mode == 'optimize' and specs[0][0] == 'maxsmt':
            more = (prob.bool_term(1), rng.randint(1, 4))
            extra.append(more[0])
        case = {'assertions': [B.to_json(a) for a in prob.assertions],
                'goals': [(s[0], repr(s[1])[:200], s[2]) for s in specs],
                'mixin': mixin, 'strategy': strategy, 'mode': mode,
                'order': order}
        tag = '%s/%s/%s' % (mode, mixin, strategy)
        try:
            models = prob.models(extra)
        except R.Unconstrained:
            return
        Opt = opt_classes()[mixin]
        solver = Opt(env, L.QF_AUFBVLIRA, int_range=(INT_LO - 1, INT_HI + 1),
                     order=order)
        try:
            fas = [B.build(a, env) for a in prob.assertions]
            # put the assertions on two levels
            half = len(fas) // 2
            for f in fas[:half]:
                solver.add_assertion(f)
            solver.push()
            for f in fas[half:]:
                solver.add_assertion(f)
            goals = [build_goal(s, env, real_w) for s in specs]
            before = list(solver.assertions)
            depth_before = len(solver.frames)
            calls0 = solver.n_solve_calls
            with warnings.catch_warnings():
                warnings.simplefilter('ignore')
                if mode == 'optimize':
                    res = solver.optimize(goals[0], strategy=strategy)
                elif mode == 'boxed':
                    res = solver.boxed_optimize(goals, strategy=strategy)
                elif mode == 'lexicographic':
                    res = solver.lexicographic_optimize(goals,
                                                        strategy=strategy)
                else:
                    if j % 3 == 0:
                        # a caller that stops after the first point: the
                        # generator is closed early and must still restore
                        # the stack (checked below like every other run)
                        gen_ = solver.pareto_optimize(goals)
                        for _pt in gen_:
                            break
                        gen_.close()
                        rep.count('pareto_closed_early')
                    res = list(solver.pareto_optimize(goals))
            calls = solver.n_solve_calls - calls0
        except Exception as e:
            self.bad(tag + '/raises/' + common.exc_name(e),
                     '%s on %s raised %r at %s' % (
                         tag, [B.show(a, 60) for a in prob.assertions], e,
                         common.tb_short(e)), case)
            return
        rep.case(key=(tag, j, rep.shard),
                 sample='%s: %d assertions, goals %s, %d models' % (
                     tag, len(prob.assertions), [s[0] for s in specs],
                     len(models)) if j % 67 == 0 else None)
        rep.count('mode_' + mode)
        rep.count('mixin_' + mixin)
        rep.count('optimisations_run')
        # ---- progress bound (logical steps, never wall-clock)
        rng_size = 2 * (INT_HI - INT_LO + 2) * 4 + 16
        bound = (4 * rng_size + 8) * max(1, len(goals)) * (
            max(1, len(models)) if mode == 'pareto' else 1)
        if calls > bound:
            self.bad(tag + '/too-many-solver-calls',
                     '%d solver calls for %d goals (bound %d)' % (
                         calls, len(goals), bound), case)
        # ---- results
        def vals(spec):
            return [goal_value(spec, I)[0] for I in models]

        def best(spec, ms=None):
            vs = [goal_value(spec, I)[0] for I in (ms if ms is not None
                                                   else models)]
            d = goal_value(spec, (ms or models)[0])[1]
            return min(vs) if d == 'min' else max(vs)
        unsat = len(models) == 0
        if mode == 'optimize':
            if unsat != (res is None):
                self.bad(tag + '/no-solution-mismatch',
                         'returned %s, the assertions have %d models' % (
                             res, len(models)), case)
            elif res is not None:
                model, cost = res
                I = self.check_model(tag, prob, model, env, extra, case)
                if I is not None:
                    exp = best(specs[0])
                    got = cost_to_int(cost, specs[0])
                    mv = goal_value(specs[0], I)[0]
                    if got != exp or mv != exp:
                        self.bad(tag + '/not-optimal/' + specs[0][0],
                                 'cost %s (model value %s), true optimum %s; '
                                 'assertions %s goal %s' % (
                                     got, mv, exp,
                                     [B.show(a, 60) for a in prob.assertions],
                                     repr(specs[0])[:200]), case)
                    rep.count('optima_compared')
            if more is not None and not unsat:
                # the same goal object, one more soft clause, again
                spec2 = ('maxsmt', list(specs[0][1]) + [more], False)
                mgr = env.formula_manager
                try:
                    goals[0].add_soft_clause(
                        B.build(more[0], env),
                        mgr.Real(more[1]) if real_w else mgr.Int(more[1]))
                    with warnings.catch_warnings():
                        warnings.simplefilter('ignore')
                        res2 = solver.optimize(goals[0], strategy=strategy)
                except Exception as e:
                    self.bad(tag + '/raises/' + common.exc_name(e),
                             'second optimisation of an extended goal '
                             'raised %r at %s' % (e, common.tb_short(e)),
                             case)
                    return
                rep.count('goal_reused_after_addition')
                exp2 = best(spec2)
                got2 = None if res2 is None else cost_to_int(res2[1], spec2)
                I2 = None if res2 is None else self.check_model(
                    tag, prob, res2[0], env, extra, case)
                if got2 != exp2 or (I2 is not None and
                                    goal_value(spec2, I2)[0] != exp2):
                    self.bad(tag + '/not-optimal/maxsmt-goal-extended',
                             'after add_soft_clause on a goal that was '
                             'already optimised: cost %s, true optimum %s '
                             '(clause %s weight %d)' % (
                                 got2, exp2, B.show(more[0], 60), more[1]),
                             case)
        elif mode == 'boxed':
            if unsat != (res is None):
                self.bad(tag + '/no-solution-mismatch', 'returned %s, %d '
                         'models' % (res, len(models)), case)
            elif res is not None:
                for g, s in zip(goals, specs):
                    if g not in res:
                        self.bad(tag + '/goal-missing', 'no entry', case)
                        continue
                    model, cost = res[g]
                    I = self.check_model(tag, prob, model, env, extra, case)
                    if I is None:
                        continue
                    exp = best(s)
                    got = cost_to_int(cost, s)
                    if got != exp or goal_value(s, I)[0] != exp:
                        self.bad(tag + '/not-optimal/' + s[0],
                                 'boxed cost %s, true optimum %s' % (got,
                                                                      exp),
                                 case)
                    rep.count('optima_compared')
        elif mode == 'lexicographic':
            if unsat != (res is None):
                self.bad(tag + '/no-solution-mismatch', 'returned %s, %d '
                         'models' % (res, len(models)), case)
            elif res is not None:
                model, costs = res
                I = self.check_model(tag, prob, model, env, extra, case)
                ms = models
                exp = []
                for s in specs:
                    b_ = best(s, ms)
                    exp.append(b_)
                    ms = [m for m in ms if goal_value(s, m)[0] == b_]
                got = [cost_to_int(c, s) for c, s in zip(costs, specs)]
                if got != exp or (I is not None and [
                        goal_value(s, I)[0] for s in specs] != exp):
                    self.bad(tag + '/not-lexicographic-optimum',
                             'costs %s, lexicographic optimum %s' % (got,
                                                                      exp),
                             case)
                rep.count('optima_compared')
        else:
            vecs = set()
            for m in models:
                vecs.add(tuple(goal_value(s, m)[0] for s in specs))
            dirs = [goal_value(s, models[0])[1] for s in specs] \
                if models else []

            def dominates(a, b):
                ge = all((x <= y) if d == 'min' else (x >= y)
                         for x, y, d in zip(a, b, dirs))
                return ge and a != b
            front = set(v for v in vecs
                        if not any(dominates(u, v) for u in vecs))
            got = []
            for (model, costs) in res:
                self.check_model(tag, prob, model, env, extra, case)
                got.append(tuple(cost_to_int(c, s)
                                 for c, s in zip(costs, specs)))
            if set(got) != front or len(got) != len(set(got)):
                self.bad(tag + '/pareto-front',
                         'yielded %s, true front %s' % (sorted(got),
                                                        sorted(front)), case)
            rep.count('optima_compared')
            rep.count('pareto_points', len(front))
        # ---- the solver is left as it was found
        try:
            after = list(solver.assertions)
            if len(after) != len(before) or any(
                    x is not y for x, y in zip(after, before)):
                self.bad(tag + '/assertions-changed',
                         'assertions before %s after %s' % (before, after),
                         case)
            elif len(solver.frames) != depth_before:
                self.bad(tag + '/stack-depth-changed',
                         'back-end depth before %d after %d' % (
                             depth_before, len(solver.frames)), case)
            else:
                # round trip: the caller's pop removes the caller's level
                mgr = env.formula_manager
                solver.push()
                solver.add_assertion(mgr.Symbol('c18_probe'))
                solver.pop()
                solver.pop()
                exp_after = before[:half]
                got_after = list(solver.assertions)
                if len(got_after) != len(exp_after) or any(
                        x is not y for x, y in zip(got_after, exp_after)):
                    self.bad(tag + '/pop-removes-wrong-level',
                             'after the caller pops its level the assertions '
                             'are %s, expected %s' % (got_after, exp_after),
                             case)
                rep.count('stack_roundtrips')
        except Exception as e:
            self.bad(tag + '/stack-roundtrip-raises/' + common.exc_name(e),
                     'after %s: %r' % (tag, e), case)
        finally:
            try:
                solver.exit()
            except Exception:
                pass


def run(rep):
    M.NODE_MONITOR.install()
    ck = Checker(rep)
    n = 220 if rep.tier == 'quick' else 30000
    j = 0
    while j < n and not rep.out_of_time():
        ck.run_case(j + rep.shard * 1000003 % 64)
        j += 1
        if j % 50 == 0:
            M.NODE_MONITOR.types.clear()
            M.NODE_MONITOR.shadow.clear()
            M.NODE_MONITOR.byid.clear()
            M.NODE_MONITOR.mgrs.clear()
    if j < n:
        rep.notes.append('truncated at %d of %d' % (j, n))


def replay(case, rep):
    run(rep)
