"""C01 - simplification preserves type and meaning."""
import random

from . import bp as B
from . import gen as G
from . import judge as J
from . import monitors as M
from . import common
from . import refeval as R

PROP = 'C01'


def workloads(rep):
    """Yield (workload-name, index, blueprint)."""
    quick = rep.tier == 'quick'
    rng = random.Random(rep.seed * 7919 + 17)
    i = 0
    for op, tag, b in G.systematic(rng, nconst=4 if quick else 6,
                                   max_per_sig=150 if quick else 1500):
        yield 'systematic', i, b
        i += 1
    for b in G.nested_shapes(rng):
        yield 'shapes', i, b
        i += 1
    for b in G.bv_exhaustive((1, 2, 3) if quick else (1, 2, 3, 4)):
        yield 'bv_exhaustive', i, b
        i += 1
    for b in G.string_exhaustive(1 if quick else 2):
        yield 'strings', i, b
        i += 1
    for b in G.int_div_grid():
        yield 'divgrid', i, b
        i += 1
    for b in array_cases():
        yield 'arrays', i, b
        i += 1
    for b in pow_cases():
        yield 'pow', i, b
        i += 1


def array_cases():
    out = []
    for (it, et, ks, vs) in [
            (B.INT, B.INT, [0, 1, 5], [0, 1, 7]),
            (B.BV(2), B.BV(2), [0, 1, 2, 3], [0, 1, 3]),
            (B.BOOL, B.BV(1), [False, True], [0, 1]),
            (B.INT, B.BOOL, [0, 3], [False, True]),
            (B.BV(1), B.INT, [0, 1], [0, 1, 7])]:
        arrs = []
        for d in vs:
            arrs.append(('arrayval', it, (G.const_bp(et, d),)))
            for k in ks[:2]:
                for v in vs[:2]:
                    arrs.append(('arrayval', it, (
                        G.const_bp(et, d), G.const_bp(it, k),
                        G.const_bp(et, v))))
        # every index assigned (finite index sorts: default unobservable)
        if R.dom_size(it) is not None and R.dom_size(it) <= 4:
            for d in vs[:2]:
                kids = [G.const_bp(et, d)]
                for k in ks:
                    kids += [G.const_bp(it, k), G.const_bp(et, vs[-1])]
                arrs.append(('arrayval', it, tuple(kids)))
            # every subset of the index domain assigned (in particular all
            # but one index: the default is then observable at one point)
            import itertools
            for r_ in range(2, len(ks)):
                for sub in itertools.combinations(ks, r_):
                    for d in vs[:2]:
                        kids = [G.const_bp(et, d)]
                        for k in sub:
                            kids += [G.const_bp(it, k),
                                     G.const_bp(et, vs[-1])]
                        arrs.append(('arrayval', it, tuple(kids)))
        a_sym = B.Sym(G.sym_name(B.ARR(it, et)) + '0', B.ARR(it, et))
        for a in arrs:
            for b in arrs:
                out.append(('eq', None, (a, b)))
            for k in ks:
                out.append(('select', None, (a, G.const_bp(it, k))))
                out.append(('select', None, (
                    ('store', None, (a, G.const_bp(it, k),
                                     G.const_bp(et, vs[0]))),
                    G.const_bp(it, ks[0]))))
                out.append(('eq', None, (
                    ('store', None, (a, G.const_bp(it, k),
                                     G.const_bp(et, vs[-1]))), a)))
                out.append(('eq', None, (
                    ('store', None, (a_sym, G.const_bp(it, k),
                                     G.const_bp(et, vs[-1]))), a)))
    # array literals whose index sort is itself an array sort: two index
    # literals can denote the same array and be different objects
    BV1 = B.BV(1)
    one, zero = B.BVc(1, 1), B.BVc(0, 1)
    k1 = ('arrayval', BV1, (zero, zero, one, one, one))
    k2 = ('arrayval', BV1, (one,))
    k3 = ('arrayval', BV1, (one, zero, one))
    k4 = ('arrayval', BV1, (zero, one, one))
    AA = ('arrayval', B.ARR(BV1, BV1), (B.Int(0), k1, B.Int(5)))
    for ka in (k1, k2, k3, k4):
        out.append(('eq', None, (('select', None, (AA, ka)), B.Int(5))))
        for kb in (k1, k2, k3):
            out.append(('eq', None, (('select', None, (
                ('store', None, (AA, kb, B.Int(7))), ka)), B.Int(7))))
    return out


def pow_cases():
    out = []
    x = B.Sym('r0', B.REAL)
    i = B.Sym('i0', B.INT)
    for e in (0, 1, 2, 3):
        out.append(('pow', None, (x, B.Real(e))))
        out.append(('pow', None, (('plus', None, (x, B.Real(1))),
                                  B.Real(e))))
        out.append(('le', None, (('pow', None, (x, B.Real(e))), x)))
        out.append(('pow', None, (i, B.Int(e))))
        out.append(('pow', None, (('plus', None, (B.Int(1), B.Int(1))),
                                  B.Int(e))))
        out.append(('le', None, (
            ('pow', None, (('plus', None, (B.Int(1), B.Int(1))), B.Int(e))),
            B.Real(3))))
        out.append(('pow', None, (('plus', None, (B.Real(1), B.Real(1))),
                                  B.Real(e))))
    return out


class Checker(object):
    def __init__(self, rep, env):
        self.rep = rep
        self.env = env
        self.rng = random.Random(rep.seed * 104729 + rep.shard)
        self.sb = J.ShrinkBudget(rep)

    def judge_once(self, b, n_samples):
        """-> (kind, info) with kind None when the property held."""
        from pysmt.environment import get_env
        try:
            f = B.build(b, get_env())
        except Exception as e:
            return 'build', repr(e)
        fb = B.describe(f)
        try:
            r = f.simplify()
        except Exception as e:
            return 'exc:' + common.exc_name(e), '%r at %s' % (
                e, common.tb_short(e))
        rb = B.describe(r)
        try:
            t1 = B.typeof(fb)
        except B.IllTyped as e:
            return 'build', 'input not well typed: %s' % e
        try:
            t2 = B.typeof(rb)
        except B.IllTyped as e:
            return 'type', 'result ill-typed: %s' % e
        if t1 != t2:
            return 'type', 'type %r became %r: %s' % (t1, t2, B.show(rb))
        extra = B.free_syms(rb) - B.free_syms(fb)
        if extra:
            return 'freesym', 'new symbols %r' % (sorted(extra),)
        v, info = J.compare(fb, rb, self.rng, n_samples=n_samples,
                            seed=self.rep.seed)
        if v == 'diff':
            return 'value', '%s  -->  %s  under %s: %s vs %s' % (
                B.show(fb, 200), B.show(rb, 200), info['I'], info['v1'],
                info['v2'])
        if v == 'skip':
            self.rep.count('all_interpretations_unconstrained')
        else:
            self.rep.count('compared')
            self.rep.count('interpretations', info['n'])
            if info['exhaustive']:
                self.rep.count('exhaustive_cases')
        return None, None

    def check(self, wl, b, n_samples=24):
        rep = self.rep
        kind, info = self.judge_once(b, n_samples)
        rep.case(key=hash(b), sample=B.show(b, 160) if rep.evaluations % 997
                 == 0 else None)
        rep.count('wl_' + wl)
        rep.count('op_' + b[0])
        if kind is None:
            return True
        if kind == 'build':
            rep.count('build_rejected')
            rep.count('build_rejected_' + wl)
            return True

        def fails(x):
            return self.judge_once(x, n_samples)[0] == kind
        if kind == 'value' and any(
                x[0] == 'arrayval' and x[1][0] == 'Array'
                for x in B.subterms(b)):
            # one mechanism (recorded): literals indexed by array literals
            # are looked up by object identity
            rep.violation('C01/simplify/value/array-literal-indexed-by-arrays',
                          '%s: %s' % (kind, info), {'bp': B.to_json(b),
                                                    'kind': kind})
            return False
        key, m = self.sb.classify(PROP, 'simplify', kind, b, fails)
        what = info
        if m is not None and m is not b:
            k2, i2 = self.judge_once(m, n_samples)
            what = 'minimal: %s :: %s' % (B.show(m, 200), i2)
        rep.violation(key, '%s: %s' % (kind, what),
                      {'bp': B.to_json(m if m is not None else b),
                       'kind': kind})
        return False


def drain_contract(rep):
    for name, info in M.PENDING:
        fb, rb = info[0], info[1]
        rep.violation('%s/contract/%s/%s' % (
            PROP, name, J.shape_key(fb, 1) if fb else '?'),
            'contract %s: %s -> %s (%s)' % (
                name, B.show(fb, 150) if fb else '?',
                B.show(rb, 150) if rb else '?', info[2:]),
            {'bp': B.to_json(fb) if fb else None, 'kind': name})
    del M.PENDING[:]


def run(rep):
    M.install_simplify_contract()
    M.NODE_MONITOR.install()
    if rep.shard == 0 and rep.tier != 'quick':
        # the repository's own tests with the contract on
        common.run_repo_tests_monitored(rep, ('simplify:',))
    env = common.fresh_env()
    ck = Checker(rep, env)
    for wl, i, b in workloads(rep):
        if i % rep.nshards != rep.shard:
            continue
        if rep.only and rep.only != wl:
            continue
        ck.check(wl, b)
        if i % 2000 == 0:
            env = common.fresh_env()
    # random DAGs
    n_rand = 2500 if rep.tier == 'quick' else 100000
    rng = random.Random(rep.seed * 1000003 + rep.shard)
    cfgs = [G.Cfg(), G.Cfg(quant=False), G.Cfg(strings=False, max_depth=4),
            G.Cfg(arrays=False, uf=False, max_depth=6),
            G.Cfg(bv=False, strings=False), G.Cfg(pow=True, quant=False)]
    j = 0
    while j < n_rand and not rep.out_of_time():
        if rep.only and rep.only != 'random':
            break
        cfg = cfgs[j % len(cfgs)]
        g = G.Gen(rng, cfg)
        ty = rng.choice([B.BOOL, B.BOOL, B.BOOL, B.INT, B.REAL, B.BV(3),
                         B.BV(8), B.STRING, G.A_II, G.A_22])
        if not g.type_ok(ty):
            ty = B.BOOL
        b = g.term(ty)
        ck.check('random', b, n_samples=16)
        j += 1
        if j % 300 == 0:
            common.fresh_env()
    if j < n_rand:
        rep.notes.append('random workload truncated at %d of %d by the time '
                         'budget' % (j, n_rand))
    drain_contract(rep)
    rep.count('contract_evals', M.COUNTS.get('simplify_contract', 0))
    nm = M.NODE_MONITOR
    rep.count('nodes_typed_by_create_node_monitor', nm.nodes_typed)
    for (k, what, case) in nm.problems:
        rep.violation('C01/create_node/' + k, what, {'bp': case, 'kind': k})


def replay(case, rep):
    M.install_simplify_contract()
    common.fresh_env()
    ck = Checker(rep, None)
    b = B.from_json(case['case']['bp'])
    kind, info = ck.judge_once(b, 64)
    if kind:
        rep.violation(case['key'], '%s: %s' % (kind, info), case['case'])
    print('replay %s: %s %s' % (B.show(b), kind, info))
