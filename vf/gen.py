"""M1 - generators of blueprints (systematic, exhaustive small domains, random
DAGs).  Everything is driven by an explicit random.Random."""
import random
from fractions import Fraction
from itertools import product

from . import bp as B
from .bp import BOOL, INT, REAL, STRING, BV, ARR, U, FUN

A_II = ARR(INT, INT)
A_IB = ARR(INT, BOOL)
A_22 = ARR(BV(2), BV(2))
A_B1 = ARR(BOOL, BV(1))
A_IA = ARR(INT, A_II)
A_RS = ARR(REAL, STRING)
US = U('S')

BASE_TYPES = [BOOL, INT, REAL, BV(1), BV(2), BV(3), BV(4), BV(8), STRING,
              A_II, A_IB, A_22, US]

SMALL_CONSTS = {
    BOOL: [False, True],
    INT: [0, 1, -1, 2, 7, -3, 10 ** 20 + 1],
    REAL: [Fraction(0), Fraction(1), Fraction(-1), Fraction(1, 2),
           Fraction(-7, 3), Fraction(2)],
    STRING: ['', 'a', 'ab', 'abc', '7', '-5', 'a"b'],
}


def consts_of(t):
    if t in SMALL_CONSTS:
        return SMALL_CONSTS[t]
    if t[0] == 'BV':
        w = t[1]
        out = []
        for v in (0, 1, 2 ** w - 1, 2 ** (w - 1), 2 % 2 ** w, w % 2 ** w,
                  5 % 2 ** w):
            if v not in out:
                out.append(v)
        return out
    return []


def const_bp(t, v):
    k = t[0]
    if k == 'Bool':
        return B.Bool(v)
    if k == 'Int':
        return B.Int(v)
    if k == 'Real':
        return B.Real(v)
    if k == 'String':
        return B.Str(v)
    if k == 'BV':
        return B.BVc(v, t[1])
    raise ValueError(t)


def sym_name(t):
    k = t[0]
    if k == 'Bool':
        return 'p'
    if k == 'Int':
        return 'i'
    if k == 'Real':
        return 'r'
    if k == 'String':
        return 's'
    if k == 'BV':
        return 'b%d_' % t[1]
    if k == 'Array':
        return 'a' + ''.join(c for c in repr(t) if c.isalnum())[:16] + '_'
    if k == 'U':
        return 'u%s_' % t[1]
    return 'x'


class Cfg(object):
    def __init__(self, **kw):
        self.quant = True
        self.uf = True
        self.arrays = True
        self.strings = True
        self.bv = True
        self.arith = True
        self.div = True
        self.pow = False
        self.custom = True
        self.max_depth = 5
        self.names = None            # optional list of hostile names
        self.nsyms = 3
        self.share = 0.25
        self.qtypes = [BOOL, INT, REAL, BV(2), BV(3)]
        self.quant_bool_pos_only = False   # quantifiers in Boolean positions
        self.bool_select = True            # Boolean-valued array reads
        self.__dict__.update(kw)


class Gen(object):
    """Random typed blueprint generator with explicit sharing."""

    def __init__(self, rng, cfg=None):
        self.rng = rng
        self.cfg = cfg or Cfg()
        self.pool = {}      # type -> list of generated terms (for sharing)
        self.bound = []     # stack of (name, type) currently bound
        self.funs = {}      # name -> fty
        self._names = {}
        self.term_depth = 0  # >0 while generating below a non-Boolean node

    # -- symbols -----------------------------------------------------------
    def name_for(self, t, j):
        key = (t, j)
        if key not in self._names:
            if self.cfg.names:
                # hostile name pool: a name belongs to exactly one type
                used = set(self._names.values())
                cand = [n for n in self.cfg.names if n not in used]
                if cand:
                    self._names[key] = self.rng.choice(cand)
                else:
                    self._names[key] = '%s%d' % (sym_name(t), j)
            else:
                self._names[key] = '%s%d' % (sym_name(t), j)
        return self._names[key]

    def sym(self, t):
        r = self.rng
        # bound variable of that type in scope?
        bs = [b for b in self.bound if b[1] == t]
        if bs and r.random() < 0.6:
            return B.Sym(*r.choice(bs))
        return B.Sym(self.name_for(t, r.randrange(self.cfg.nsyms)), t)

    def fun(self, ret):
        r = self.rng
        cands = [(n, f) for n, f in self.funs.items() if f[1] == ret]
        if cands and r.random() < 0.7:
            return r.choice(cands)
        np_ = r.randint(1, 3)
        ptypes = [r.choice([BOOL, INT, REAL, BV(2), BV(3), ret
                            if ret[0] != 'Array' else INT])
                  for _ in range(np_)]
        ptypes = [p for p in ptypes if self.type_ok(p)] or [INT]
        import zlib
        name = 'f%d%s%x' % (len(self.funs), sym_name(ret),
                            zlib.crc32(repr(ptypes).encode()) & 0xfff)
        if self.cfg.names:
            used = set(self._names.values()) | set(self.funs)
            cand = [n for n in self.cfg.names if n not in used]
            if cand:
                name = r.choice(cand)
        fty = FUN(ret, ptypes)
        self.funs[name] = fty
        return name, fty

    def type_ok(self, t):
        c = self.cfg
        k = t[0]
        if k == 'BV':
            return c.bv
        if k in ('Int', 'Real'):
            return c.arith
        if k == 'String':
            return c.strings
        if k == 'Array':
            return c.arrays and self.type_ok(t[1]) and self.type_ok(t[2])
        if k == 'U':
            return c.custom
        return True

    def const(self, t):
        r = self.rng
        k = t[0]
        if k in ('Bool', 'Int', 'Real', 'String', 'BV'):
            cs = consts_of(t)
            if r.random() < 0.7:
                return const_bp(t, r.choice(cs))
            if k == 'Int':
                return B.Int(r.randint(-20, 20))
            if k == 'Real':
                return B.Real(Fraction(r.randint(-20, 20), r.randint(1, 6)))
            if k == 'BV':
                return B.BVc(r.randrange(2 ** t[1]), t[1])
            if k == 'String':
                return B.Str(''.join(r.choice('ab07-')
                                     for _ in range(r.randint(0, 3))))
            return const_bp(t, r.choice(cs))
        if k == 'Array':
            return self.arrayval(t, 0)
        return None

    def arrayval(self, t, d):
        r = self.rng
        it, et = t[1], t[2]
        dflt = self.term(et, min(d, 1)) if r.random() < 0.3 else (
            self.const(et) or self.sym(et))
        kids = [dflt]
        if it[0] in ('Bool', 'Int', 'Real', 'String', 'BV'):
            seen = set()
            for _ in range(r.randint(0, 3)):
                kc = self.const(it)
                if kc in seen:
                    continue
                seen.add(kc)
                kids.append(kc)
                kids.append(self.const(et) or self.sym(et)
                            if r.random() < 0.7 else self.term(et, min(d, 1)))
        return ('arrayval', it, tuple(kids))

    # -- terms ---------------------------------------------------------------
    def term(self, t, d=None):
        if d is None:
            d = self.cfg.max_depth
        r = self.rng
        # sharing: reuse an earlier term of this type whose bound variables
        # are all still in scope
        pool = self.pool.get(t)
        if pool and r.random() < self.cfg.share:
            cand = r.choice(pool)
            scope = set(self.bound)
            if all((s in scope) or not s[0].startswith('qv')
                   for s in B.free_syms(cand)):
                return cand
        if d <= 0 or r.random() < 0.12:
            x = self.leaf(t)
        else:
            x = self.compound(t, d)
        self.pool.setdefault(t, []).append(x)
        return x

    def leaf(self, t):
        r = self.rng
        if t[0] == 'U' or r.random() < 0.6:
            return self.sym(t)
        c = self.const(t)
        return c if c is not None else self.sym(t)

    def pick_type(self, exclude_bool=False, scalar=False):
        r = self.rng
        ts = [t for t in BASE_TYPES if self.type_ok(t)]
        if exclude_bool:
            ts = [t for t in ts if t != BOOL]
        if scalar:
            ts = [t for t in ts if t[0] not in ('Array', 'U')]
        return r.choice(ts)

    def compound(self, t, d):
        r = self.rng
        c = self.cfg
        k = t[0]
        def T(ty):
            return self.term(ty, d - 1)

        def TT(ty):
            # child of a node that is not a Boolean connective
            self.term_depth += 1
            try:
                return self.term(ty, d - 1)
            finally:
                self.term_depth -= 1
        choices = ['ite']
        if c.uf:
            choices.append('app')
        if c.arrays and t[0] != 'Array' and self.type_ok(t) and (
                c.bool_select or t != BOOL):
            choices.append('select')
        if k == 'Bool':
            choices += ['and', 'or', 'not', 'implies', 'iff', 'and', 'or',
                        'not']
            if any(self.type_ok(x) for x in BASE_TYPES if x != BOOL):
                choices += ['eq', 'eq']
            if c.arith:
                choices += ['le', 'lt', 'le']
            if c.bv:
                choices += ['bvrel', 'bvrel']
            if c.strings:
                choices += ['strrel']
            if c.quant and d >= 2 and not (c.quant_bool_pos_only
                                           and self.term_depth > 0):
                choices += ['quant', 'quant']
        elif k == 'Int':
            choices += ['plus', 'minus', 'times', 'plus', 'times']
            if c.div:
                choices += ['div']
            if c.strings:
                choices += ['strlen', 'strindexof', 'strtoint']
            if c.bv:
                choices += ['bv2nat']
        elif k == 'Real':
            choices += ['plus', 'minus', 'times', 'toreal', 'plus', 'times']
            if c.div:
                choices += ['div']
            if c.pow:
                choices += ['pow']
        elif k == 'BV':
            w = t[1]
            choices += ['bvbin', 'bvbin', 'bvbin', 'bvun', 'rot', 'bvbin']
            if w >= 2:
                choices += ['concat', 'ext']
            if w <= 8:
                choices += ['extract']
            if w == 1:
                choices += ['bvcomp']
        elif k == 'String':
            choices += ['strconcat', 'strreplace', 'strsubstr', 'inttostr',
                        'strcharat', 'strconcat']
        elif k == 'Array':
            choices += ['store', 'store', 'arrayval']
        op = r.choice(choices)
        if op == 'ite':
            if k == 'Bool':
                return ('ite', None, (T(BOOL), T(t), T(t)))
            return ('ite', None, (TT(BOOL), TT(t), TT(t)))
        if op not in ('and', 'or', 'not', 'implies', 'iff', 'quant'):
            T = TT
        if op == 'app':
            name, fty = self.fun(t)
            return B.App(name, fty, [T(p) for p in fty[2]])
        if op == 'select':
            it = r.choice([INT, BV(2)] if c.bv else [INT])
            if not self.type_ok(it):
                it = BOOL
            return ('select', None, (T(ARR(it, t)), T(it)))
        if op in ('and', 'or'):
            return (op, None, tuple(T(BOOL) for _ in range(r.randint(2, 4))))
        if op == 'not':
            return ('not', None, (T(BOOL),))
        if op in ('implies', 'iff'):
            return (op, None, (T(BOOL), T(BOOL)))
        if op == 'eq':
            et = self.pick_type(exclude_bool=True)
            return ('eq', None, (T(et), T(et)))
        if op in ('le', 'lt'):
            et = r.choice([INT, REAL])
            return (op, None, (T(et), T(et)))
        if op == 'bvrel':
            et = r.choice([BV(1), BV(2), BV(3), BV(4), BV(8)])
            return (r.choice(B.BV_REL), None, (T(et), T(et)))
        if op == 'strrel':
            return (r.choice(['strcontains', 'strprefixof', 'strsuffixof']),
                    None, (T(STRING), T(STRING)))
        if op == 'quant':
            qts = [q for q in c.qtypes if self.type_ok(q)] or [BOOL]
            nv = r.randint(1, 2)
            vs = []
            for _ in range(nv):
                qt = r.choice(qts)
                # sometimes shadow a free symbol name
                if r.random() < 0.3:
                    nm = self.name_for(qt, r.randrange(self.cfg.nsyms))
                else:
                    nm = 'qv%d%s' % (r.randrange(3), sym_name(qt))
                if nm not in [v[0] for v in vs]:
                    vs.append((nm, qt))
            self.bound.extend(vs)
            try:
                body = T(BOOL)
            finally:
                del self.bound[-len(vs):]
            return (r.choice(['forall', 'exists']), tuple(vs), (body,))
        if op in ('plus', 'times'):
            n = r.randint(2, 3)
            return (op, None, tuple(T(t) for _ in range(n)))
        if op == 'minus':
            return ('minus', None, (T(t), T(t)))
        if op == 'div':
            return ('div', None, (T(t), T(t)))
        if op == 'pow':
            return ('pow', None, (T(REAL), B.Real(r.choice([0, 1, 2, 3]))))
        if op == 'toreal':
            return ('toreal', None, (T(INT),))
        if op == 'strlen':
            return ('strlen', None, (T(STRING),))
        if op == 'strindexof':
            return ('strindexof', None, (T(STRING), T(STRING), T(INT)))
        if op == 'strtoint':
            return ('strtoint', None, (T(STRING),))
        if op == 'bv2nat':
            return ('bv2nat', None, (T(r.choice([BV(1), BV(3), BV(8)])),))
        if op == 'bvbin':
            return (r.choice(B.BV_BIN_SAME), None, (T(t), T(t)))
        if op == 'bvun':
            return (r.choice(B.BV_UN), None, (T(t),))
        if op == 'rot':
            return (r.choice(['rol', 'ror']), r.randint(0, t[1]), (T(t),))
        if op == 'concat':
            w1 = r.randint(1, t[1] - 1)
            return ('concat', None, (T(BV(w1)), T(BV(t[1] - w1))))
        if op == 'ext':
            inc = r.randint(0, t[1] - 1)
            return (r.choice(['zext', 'sext']), inc, (T(BV(t[1] - inc)),))
        if op == 'extract':
            big = r.choice([w for w in (1, 2, 3, 4, 8, 12)
                            if w >= t[1]])
            s = r.randint(0, big - t[1])
            return ('extract', (s, s + t[1] - 1), (T(BV(big)),))
        if op == 'bvcomp':
            et = r.choice([BV(1), BV(3), BV(8)])
            return ('bvcomp', None, (T(et), T(et)))
        if op == 'strconcat':
            return ('strconcat', None,
                    tuple(T(STRING) for _ in range(r.randint(2, 3))))
        if op == 'strreplace':
            return ('strreplace', None, (T(STRING), T(STRING), T(STRING)))
        if op == 'strsubstr':
            return ('strsubstr', None, (T(STRING), T(INT), T(INT)))
        if op == 'inttostr':
            return ('inttostr', None, (T(INT),))
        if op == 'strcharat':
            return ('strcharat', None, (T(STRING), T(INT)))
        if op == 'store':
            return ('store', None, (T(t), T(t[1]), T(t[2])))
        if op == 'arrayval':
            return self.arrayval(t, d - 1)
        raise ValueError(op)


def random_formula(rng, ty=BOOL, cfg=None):
    g = Gen(rng, cfg)
    return g.term(ty)


# --------------------------------------------------------------------------
# systematic operator x operand-shape enumeration
# --------------------------------------------------------------------------
def _sigs():
    """op -> list of (payload, [arg types])."""
    S = {}
    BVW = [BV(1), BV(3), BV(4), BV(8)]
    for op in ('and', 'or'):
        S[op] = [(None, [BOOL, BOOL]), (None, [BOOL, BOOL, BOOL])]
    S['not'] = [(None, [BOOL])]
    S['implies'] = [(None, [BOOL, BOOL])]
    S['iff'] = [(None, [BOOL, BOOL])]
    for op in ('plus', 'times'):
        S[op] = [(None, [INT, INT]), (None, [REAL, REAL]),
                 (None, [INT, INT, INT]), (None, [REAL, REAL, REAL])]
    for op in ('minus', 'div', 'le', 'lt'):
        S[op] = [(None, [INT, INT]), (None, [REAL, REAL])]
    S['eq'] = [(None, [t, t]) for t in
               (INT, REAL, BV(3), BV(8), STRING, A_II, A_22, A_B1, US)]
    S['ite'] = [(None, [BOOL, t, t]) for t in
                (BOOL, INT, REAL, BV(3), STRING, A_II, US)]
    S['toreal'] = [(None, [INT])]
    for op in B.BV_UN:
        S[op] = [(None, [t]) for t in BVW]
    for op in B.BV_BIN_SAME + B.BV_REL + ('bvcomp',):
        S[op] = [(None, [t, t]) for t in BVW]
    S['concat'] = [(None, [BV(1), BV(3)]), (None, [BV(4), BV(4)]),
                   (None, [BV(3), BV(1)])]
    S['extract'] = [((0, 0), [BV(1)]), ((0, 2), [BV(3)]), ((1, 2), [BV(3)]),
                    ((2, 2), [BV(3)]), ((0, 3), [BV(8)]), ((4, 7), [BV(8)]),
                    ((3, 5), [BV(8)]), ((0, 7), [BV(8)])]
    for op in ('rol', 'ror'):
        S[op] = [(k, [BV(w)]) for w in (1, 3, 4, 8)
                 for k in sorted(set([0, 1, w - 1, w, (w + 1) // 2]))
                 if 0 <= k <= w]
    for op in ('zext', 'sext'):
        S[op] = [(k, [t]) for t in (BV(1), BV(3), BV(8)) for k in (0, 1, 5)]
    S['bv2nat'] = [(None, [t]) for t in BVW]
    S['strlen'] = [(None, [STRING])]
    S['strconcat'] = [(None, [STRING, STRING]),
                      (None, [STRING, STRING, STRING])]
    for op in ('strcontains', 'strprefixof', 'strsuffixof'):
        S[op] = [(None, [STRING, STRING])]
    S['strindexof'] = [(None, [STRING, STRING, INT])]
    S['strreplace'] = [(None, [STRING, STRING, STRING])]
    S['strsubstr'] = [(None, [STRING, INT, INT])]
    S['strtoint'] = [(None, [STRING])]
    S['inttostr'] = [(None, [INT])]
    S['strcharat'] = [(None, [STRING, INT])]
    S['select'] = [(None, [A_II, INT]), (None, [A_22, BV(2)]),
                   (None, [A_IB, INT]), (None, [A_B1, BOOL])]
    S['store'] = [(None, [A_II, INT, INT]), (None, [A_22, BV(2), BV(2)]),
                  (None, [A_B1, BOOL, BV(1)])]
    S['pow'] = [(None, [REAL, REAL])]
    return S


SIGS = _sigs()


def arg_shapes(t, rng, nconst=5):
    """Operand shapes of type t: constants, symbols, a compound."""
    out = []
    cs = consts_of(t)
    for v in cs[:nconst]:
        out.append(('c', const_bp(t, v)))
    if t[0] == 'Array':
        it, et = t[1], t[2]
        ecs = consts_of(et)
        ics = consts_of(it)
        if ecs:
            out.append(('c', ('arrayval', it, (const_bp(et, ecs[0]),))))
            if len(ecs) > 1:
                out.append(('c', ('arrayval', it, (const_bp(et, ecs[1]),))))
                if ics:
                    out.append(('c', ('arrayval', it, (
                        const_bp(et, ecs[0]), const_bp(it, ics[0]),
                        const_bp(et, ecs[1])))))
                    if len(ics) > 1:
                        out.append(('c', ('arrayval', it, (
                            const_bp(et, ecs[1]), const_bp(it, ics[0]),
                            const_bp(et, ecs[0]), const_bp(it, ics[1]),
                            const_bp(et, ecs[0])))))
    out.append(('s', B.Sym(sym_name(t) + '0', t)))
    out.append(('s', B.Sym(sym_name(t) + '1', t)))
    g = Gen(rng, Cfg(quant=False, max_depth=2, uf=False))
    out.append(('x', g.compound(t, 2) if t[0] != 'U'
                else ('ite', None, (B.Sym('p0', BOOL),
                                    B.Sym(sym_name(t) + '0', t),
                                    B.Sym(sym_name(t) + '1', t)))))
    return out


def systematic(rng, ops=None, nconst=5, max_per_sig=400):
    """Yield (op, shape-tag, blueprint) for every op x signature x shapes."""
    for op in sorted(SIGS):
        if ops is not None and op not in ops:
            continue
        for (pl, ats) in SIGS[op]:
            shapes = [arg_shapes(t, rng, nconst) for t in ats]
            combos = list(product(*shapes))
            if len(combos) > max_per_sig:
                rng.shuffle(combos)
                # always keep all-constant / same-arg combos
                keep = [c for c in combos if all(s[0] == 'c' for s in c)]
                rest = [c for c in combos if c not in keep]
                combos = (keep[:max_per_sig // 2] +
                          rest[:max_per_sig - min(len(keep),
                                                  max_per_sig // 2)])
            for combo in combos:
                tag = ''.join(s[0] for s in combo)
                kids = tuple(s[1] for s in combo)
                if op == 'pow':
                    if kids[1][0] != 'real' or kids[1][1].denominator != 1 \
                            or abs(kids[1][1]) > 3:
                        continue
                yield op, tag, (op, pl, kids)


def nested_shapes(rng):
    """Hand-shaped families for flattening / normalisation rules."""
    p, q, r_ = (B.Sym('p0', BOOL), B.Sym('p1', BOOL), B.Sym('p2', BOOL))
    out = []
    for op in ('and', 'or'):
        out += [
            (op, None, ((op, None, (p, q)), r_)),
            (op, None, (p, ('not', None, (p,)))),
            (op, None, ((op, None, (p, q)), ('not', None, (q,)))),
            (op, None, (p, p)),
            (op, None, (p, B.Bool(True), q)),
            (op, None, (p, B.Bool(False), q)),
            (op, None, (B.Bool(True), B.Bool(True))),
            (op, None, (B.Bool(False), B.Bool(False))),
            (op, None, (('not', None, (('and', None, (p, q)),)),
                        ('and', None, (p, q)))),
        ]
    for ty, mk in ((INT, B.Int), (REAL, B.Real)):
        x, y, z = (B.Sym(sym_name(ty) + '0', ty),
                   B.Sym(sym_name(ty) + '1', ty),
                   B.Sym(sym_name(ty) + '2', ty))
        P = lambda *a: ('plus', None, tuple(a))
        T = lambda *a: ('times', None, tuple(a))
        M = lambda a, b: ('minus', None, (a, b))
        out += [
            P(x, T(y, mk(-1))), P(T(x, mk(-1)), T(y, mk(-1))),
            P(x, T(y, mk(-3))), P(T(mk(-2), x), y), P(x, M(y, z)),
            P(M(x, y), M(y, x)), P(x, P(y, mk(3)), mk(-3)),
            P(mk(2), mk(3), x), P(T(x, y, mk(-2)), z),
            T(x, T(y, mk(2)), mk(3)), T(x, mk(0), y), T(mk(1), x),
            T(mk(-1), x), T(x, y, x), T(mk(2), mk(3)), M(x, x),
            M(x, mk(0)), M(mk(0), x), M(mk(5), mk(7)), M(P(x, y), P(x, y)),
            ('le', None, (mk(0), M(x, y))), ('le', None, (M(x, y), mk(0))),
            ('lt', None, (mk(0), M(x, y))), ('lt', None, (M(x, y), mk(0))),
            ('eq', None, (P(x, mk(1)), P(x, mk(1)))),
            ('div', None, (x, mk(1))), ('div', None, (mk(0), x)),
            ('div', None, (x, y)), ('div', None, (mk(7), mk(2))),
            ('div', None, (mk(-7), mk(2))), ('div', None, (mk(7), mk(-2))),
            ('div', None, (mk(-7), mk(-2))),
            ('div', None, (mk(10 ** 20 + 1), mk(3))),
            ('div', None, (mk(-(10 ** 20) - 1), mk(3))),
            ('div', None, (mk(10 ** 20 + 1), mk(-3))),
            ('div', None, (mk(2 ** 70), mk(2 ** 35 + 1))),
        ]
    # quantifiers with unused / partly used / shadowed variables
    i0, i1 = B.Sym('i0', INT), B.Sym('i1', INT)
    b0 = B.Sym('b2_0', BV(2))
    for k in ('forall', 'exists'):
        out += [
            (k, (('i0', INT),), (p,)),
            (k, (('i0', INT), ('p0', BOOL)), (('or', None, (p, q)),)),
            (k, (('i0', INT),), (('le', None, (i0, i1)),)),
            (k, (('i0', INT), ('i1', INT)), (('le', None, (i0, i1)),)),
            (k, (('p0', BOOL),), ((k, (('p0', BOOL),), (
                ('and', None, (p, q)),)),)),
            (k, (('p0', BOOL),), (('and', None, (
                p, ('exists', (('p0', BOOL),), (('iff', None, (p, q)),)))),)),
            (k, (('b2_0', BV(2)),), (('bvult', None, (b0, B.BVc(0, 2))),)),
            (k, (('b2_0', BV(2)),), (('bvule', None, (B.BVc(0, 2), b0)),)),
            (k, (('b2_0', BV(2)),), (('eq', None, (
                ('bvand', None, (b0, B.BVc(3, 2))), b0)),)),
            (k, (('p0', BOOL),), (B.Bool(True),)),
            (k, (('p0', BOOL),), (('and', None, (p, ('not', None, (p,)))),)),
        ]
    return out


def bv_exhaustive(widths=(1, 2, 3)):
    """Every BV operator on every operand value (as constants)."""
    for w in widths:
        t = BV(w)
        vals = range(2 ** w)
        for op in B.BV_UN + ('bv2nat',):
            for a in vals:
                yield (op, None, (B.BVc(a, w),))
        for op in B.BV_BIN_SAME + B.BV_REL + ('bvcomp', 'eq'):
            for a in vals:
                for b in vals:
                    yield (op, None, (B.BVc(a, w), B.BVc(b, w)))
        for a in vals:
            for k in range(0, w + 1):
                yield ('rol', k, (B.BVc(a, w),))
                yield ('ror', k, (B.BVc(a, w),))
            for inc in (0, 1, 2, 3):
                yield ('zext', inc, (B.BVc(a, w),))
                yield ('sext', inc, (B.BVc(a, w),))
            for s in range(w):
                for e in range(s, w):
                    yield ('extract', (s, e), (B.BVc(a, w),))
            for w2 in (1, 2):
                for b in range(2 ** w2):
                    yield ('concat', None, (B.BVc(a, w), B.BVc(b, w2)))


def string_exhaustive(maxlen=2, alphabet='a0-'):
    strs = ['']
    for n in range(1, maxlen + 1):
        strs += [''.join(c) for c in product(alphabet, repeat=n)]
    strs += ['ab', 'aba', 'abc', '007', ' 5', '+5', '1_0', '٣',
             '５', '-0', 'a"b']
    idx = list(range(-3, 5))
    S = B.Str
    for s in strs:
        yield ('strlen', None, (S(s),))
        yield ('strtoint', None, (S(s),))
        for i in idx:
            yield ('strcharat', None, (S(s), B.Int(i)))
    for i in list(range(-3, 25)) + [10 ** 20]:
        yield ('inttostr', None, (B.Int(i),))
    short = [s for s in strs if len(s) <= 2][:14] + ['aba', 'abc']
    for s in short:
        for t in short[:8]:
            yield ('strconcat', None, (S(s), S(t)))
            yield ('strcontains', None, (S(s), S(t)))
            yield ('strprefixof', None, (S(s), S(t)))
            yield ('strsuffixof', None, (S(s), S(t)))
            for i in range(-2, 4):
                yield ('strindexof', None, (S(s), S(t), B.Int(i)))
            for u in ('', 'x', 'a'):
                yield ('strreplace', None, (S(s), S(t), S(u)))
        for i in range(-2, 4):
            for n in range(-2, 4):
                yield ('strsubstr', None, (S(s), B.Int(i), B.Int(n)))


def int_div_grid():
    vals = [0, 1, -1, 2, -2, 3, -3, 7, -7, 10 ** 20 + 1, -(10 ** 20) - 1,
            2 ** 53 + 1, -(2 ** 53) - 1, 2 ** 64]
    for a in vals:
        for b in vals:
            if b != 0:
                yield ('div', None, (B.Int(a), B.Int(b)))
    rv = [Fraction(0), Fraction(1), Fraction(-1), Fraction(1, 3),
          Fraction(-7, 2), Fraction(10 ** 20 + 1, 7)]
    for a in rv:
        for b in rv:
            if b != 0:
                yield ('div', None, (B.Real(a), B.Real(b)))
