"""C12 - formula analyses are exact."""
import random

from . import bp as B
from . import gen as G
from . import judge as J
from . import monitors as M
from . import common
from . import refeval as R
from .c04 import canon

PROP = 'C12'

CONNECTIVES = ('and', 'or', 'not', 'implies', 'iff')
RELATIONS = ('eq', 'le', 'lt', 'bvult', 'bvule', 'bvslt', 'bvsle',
             'strcontains', 'strprefixof', 'strsuffixof')


def ref_atoms(b, tm, memo=None):
    """Own definition: maximal Boolean sub-formulas that are not built by a
    Boolean connective / Boolean ITE / quantifier / Boolean constant."""
    if memo is None:
        memo = {}
    if id(b) in memo:
        return memo[id(b)]
    op, pl, kids = b
    if op in CONNECTIVES or op in ('forall', 'exists'):
        r = frozenset().union(*[ref_atoms(c, tm, memo) for c in kids])
    elif op == 'bool':
        r = frozenset()
    elif op == 'ite' and B.typeof(b, tm) == B.BOOL:
        r = frozenset().union(*[ref_atoms(c, tm, memo) for c in kids])
    else:
        r = frozenset([b])
    memo[id(b)] = r
    return r


def expand(t, acc):
    if t in acc:
        return
    acc.add(t)
    if t[0] == 'Array':
        expand(t[1], acc)
        expand(t[2], acc)
    elif t[0] == 'Fun':
        acc.discard(t)
        expand(t[1], acc)
        for p in t[2]:
            expand(p, acc)
    elif t[0] == 'U' and len(t) > 2:
        for a in t[2]:
            expand(a, acc)


def ref_types(b):
    """-> (required, allowed): sorts of symbols (free and bound), constants
    and function signatures, expanded; allowed adds sorts of all subterms."""
    req = set()
    allowed = set()
    tm = {}
    for s in B.subterms(b):
        op, pl, kids = s
        if op == 'sym':
            expand(pl[1], req)
        elif op in ('bool', 'int', 'real', 'str', 'bv'):
            expand(B.typeof(s, tm), req)
        elif op == 'app':
            expand(pl[1], req)
        elif op in ('forall', 'exists'):
            for (_, t) in pl:
                expand(t, req)
        try:
            expand(B.typeof(s, tm), allowed)
        except B.IllTyped:
            pass
        if op == 'arrayval':
            # an array literal is a constant: its sort (index sort and
            # element sort) occurs in the formula
            try:
                expand(B.typeof(s, tm), req)
            except B.IllTyped:
                pass
            expand(pl, allowed)
    return req, allowed | req


def ref_sizes(b):
    """The six documented measures, computed on the args structure."""
    nodes = B.subterms(b)
    tree = {}
    leaves = {}
    depth = {}
    for s in nodes:      # post-order
        ks = s[2]
        tree[id(s)] = 1 + sum(tree[id(c)] for c in ks)
        leaves[id(s)] = (1 if not ks else 0) + sum(leaves[id(c)] for c in ks)
        depth[id(s)] = 1 + (max(depth[id(c)] for c in ks) if ks else 0)
    dag = len(set(nodes))            # structural distinctness
    syms = len(set(s[1] for s in nodes if s[0] == 'sym'))
    seen = set()

    def bd(s):
        if s in seen:
            return
        seen.add(s)
        if s[0] in RELATIONS:
            return
        for c in s[2]:
            bd(c)
    bd(b)
    return {'TREE_NODES': tree[id(b)], 'DAG_NODES': dag,
            'LEAVES': leaves[id(b)], 'DEPTH': depth[id(b)], 'SYMBOLS': syms,
            'BOOL_DAG': len(seen)}


def skeleton_eval(b, atomvals, tm):
    """Evaluate the Boolean skeleton on the truth values of the reported
    atoms; raises KeyError(atom) if a needed atom was not reported."""
    op, pl, kids = b
    if b in atomvals:
        return atomvals[b]
    E = lambda c: skeleton_eval(c, atomvals, tm)
    if op == 'bool':
        return pl
    if op == 'and':
        return all([E(c) for c in kids])
    if op == 'or':
        return any([E(c) for c in kids])
    if op == 'not':
        return not E(kids[0])
    if op == 'implies':
        x, y = E(kids[0]), E(kids[1])
        return (not x) or y
    if op == 'iff':
        return E(kids[0]) == E(kids[1])
    if op == 'ite' and B.typeof(b, tm) == B.BOOL:
        c, x, y = E(kids[0]), E(kids[1]), E(kids[2])
        return x if c else y
    raise KeyError(b)


class Checker(object):
    def __init__(self, rep):
        self.rep = rep
        self.rng = random.Random(rep.seed * 86028121 + rep.shard)

    def check(self, b, j, foreign=None):
        from pysmt.environment import get_env
        from pysmt.oracles import SizeOracle
        rep = self.rep
        env = get_env()
        rng = self.rng
        try:
            # (foreign: the formula lives in another environment than the
            # one whose analyses are asked - every node number of it is
            # also the number of some node the analyses have seen before)
            f = B.build(b, foreign if foreign is not None else env)
        except Exception:
            rep.count('build_rejected')
            return
        if foreign is not None:
            rep.count('foreign_environment_cases')
        fb = canon(B.describe(f))
        tm = {}
        ft = B.typeof(fb, tm)
        sk = J.shape_key(fb, 1)

        def bad(what, key, msg):
            rep.violation('%s/%s/%s' % (PROP, what, key), msg + (
                ' [formula of another environment than the current one]'
                if foreign is not None else ''),
                {'bp': B.to_json(fb), 'kind': what,
                 'foreign': foreign is not None})
        # ---- free variables
        try:
            fv = f.get_free_variables()
            got = frozenset((s.symbol_name(), B.from_pytype(s.symbol_type()))
                            for s in fv)
        except Exception as e:
            return bad('free-vars', 'exc:' + common.exc_name(e),
                       'get_free_variables(%s) raised %r' % (
                           B.show(fb, 150), e))
        exp = B.free_syms(fb)
        rep.count('free_vars_compared')
        if got != exp:
            bad('free-vars', sk, 'get_free_variables(%s) = %s, definition '
                'gives %s' % (B.show(fb, 150), sorted(got), sorted(exp)))
        # the other entry points report the formula's own nodes too
        import pysmt.shortcuts as SC
        own = None
        for ep, fn in (('shortcuts.get_free_variables',
                        lambda: SC.get_free_variables(f)),
                       ('shortcuts.get_atoms', lambda: SC.get_atoms(f))
                       if ft == B.BOOL else (None, None),
                       ('env.fvo', lambda: env.fvo.get_free_variables(f))):
            if ep is None:
                continue
            try:
                res = fn()
            except Exception as e:
                bad('entry-point', ep + '/exc:' + common.exc_name(e),
                    '%s(%s) raised %r' % (ep, B.show(fb, 150), e))
                continue
            rep.count('entry_points_compared')
            ref_ = f.get_atoms() if ep.endswith('get_atoms') else fv
            if set(map(id, res)) != set(map(id, ref_)):
                if own is None:
                    own = set()
                    todo = [f]
                    while todo:
                        x = todo.pop()
                        if id(x) in own:
                            continue
                        own.add(id(x))
                        todo.extend(x.args())
                        if x.is_quantifier():
                            todo.extend(x.quantifier_vars())
                        if x.is_function_application():
                            todo.append(x.function_name())
                foreign_ = [str(x) for x in res if id(x) not in own]
                bad('entry-point', ep,
                    '%s(%s) differs from the FNode method%s' % (
                        ep, B.show(fb, 150),
                        ': it reports nodes that are not nodes of the '
                        'formula (%s)' % foreign_[:3] if foreign_ else ''))
        # ---- qf
        qf = env.qfo.is_qf(f)
        rep.count('qf_compared')
        if qf != B.is_qf(fb):
            bad('is_qf', sk, 'is_qf(%s) = %r' % (B.show(fb, 150), qf))
        # ---- types
        try:
            got_list = env.typeso.get_types(f)
            ts = set(B.from_pytype(t) for t in got_list)
            # the caller owns the list it was given: emptying it must not
            # change what the next query answers
            try:
                del got_list[:]
                got_list.append(None)
            except Exception:
                pass
            ts_again = set(B.from_pytype(t)
                           for t in env.typeso.get_types(f))
            rep.count('types_requeried_after_caller_mutation')
            if ts_again != ts:
                bad('types', 'answer-aliased/' + sk,
                    'get_types(%s) answers %s after the caller emptied the '
                    'list it got from the previous call (%s)' % (
                        B.show(fb, 150), sorted(ts_again), sorted(ts)))
            req, allowed = ref_types(fb)
            rep.count('types_compared')
            if not (req <= ts):
                bad('types', 'missing/' + sk,
                    'get_types(%s) = %s misses %s' % (
                        B.show(fb, 150), sorted(ts), sorted(req - ts)))
            elif not (ts <= allowed):
                bad('types', 'extra/' + sk,
                    'get_types(%s) reports %s which occur nowhere' % (
                        B.show(fb, 150), sorted(ts - allowed)))
            cts = set(B.from_pytype(t)
                      for t in env.typeso.get_types(f, custom_only=True))
            creq = set(t for t in req if t[0] == 'U')
            if not (creq <= cts) or any(t[0] != 'U' for t in cts):
                bad('types', 'custom/' + sk,
                    'get_types(custom_only) of %s = %s, expected %s' % (
                        B.show(fb, 150), sorted(cts), sorted(creq)))
        except Exception as e:
            bad('types', 'exc:' + common.exc_name(e),
                'get_types(%s) raised %r' % (B.show(fb, 150), e))
        # ---- sizes, in random interleaved order, twice
        ref = ref_sizes(fb)
        names = ['TREE_NODES', 'DAG_NODES', 'LEAVES', 'DEPTH', 'SYMBOLS',
                 'BOOL_DAG']
        order = names + names + [None]
        rng.shuffle(order)
        for mname in order:
            try:
                if mname is None:
                    got_s = f.size()
                    mname = 'TREE_NODES'
                elif rng.random() < 0.5:
                    got_s = f.size(getattr(SizeOracle, 'MEASURE_' + mname))
                else:
                    got_s = env.sizeo.get_size(
                        f, getattr(SizeOracle, 'MEASURE_' + mname))
            except Exception as e:
                bad('size', 'exc:' + common.exc_name(e),
                    'size(%s, %s) raised %r' % (B.show(fb, 150), mname, e))
                break
            rep.count('sizes_compared')
            if got_s != ref[mname]:
                bad('size', mname + '/' + sk, 'size(%s, %s) = %r, definition '
                    'gives %r' % (B.show(fb, 150), mname, got_s, ref[mname]))
                break
        # ---- atoms
        atoms_b = None
        if ft == B.BOOL:
            try:
                atoms = f.get_atoms()
                atoms_b = frozenset(canon(B.describe(a)) for a in atoms)
            except Exception as e:
                bad('atoms', 'exc:' + common.exc_name(e),
                    'get_atoms(%s) raised %r' % (B.show(fb, 150), e))
            if atoms_b is not None:
                exp_a = ref_atoms(fb, tm)
                rep.count('atoms_compared')
                if atoms_b != exp_a:
                    bad('atoms', sk, 'get_atoms(%s) = %s, definition gives '
                        '%s' % (B.show(fb, 150),
                                sorted(B.show(a, 60) for a in atoms_b),
                                sorted(B.show(a, 60) for a in exp_a)))
        # ---- semantic dependence
        allsyms = set(B.free_syms(fb))
        for s in B.subterms(fb):
            if s[0] in ('forall', 'exists'):
                allsyms |= set(s[1])
        others = sorted(allsyms - set(got))
        has_q = not B.is_qf(fb)
        n = 0
        for idx, I in enumerate(R.interpretations(
                allsyms, rng, n_samples=8, limit=64, seed=rep.seed)):
            D = J.QDOMS[idx % 4] if has_q else None
            try:
                v = R.evaluate(fb, I, D)
            except R.Unconstrained:
                continue
            n += 1
            if others:
                I2 = dict(I)
                for (name, t) in others:
                    I2[name] = (R.rand_value(t, rng) if t[0] != 'Fun'
                                else R.FunV(name, t, seed=idx + 77))
                try:
                    v2 = R.evaluate(fb, I2, D)
                except R.Unconstrained:
                    v2 = v
                rep.count('dependence_checks')
                if v2 != v:
                    bad('free-vars-semantic', sk,
                        'value of %s changes when only non-reported symbols '
                        '%s change' % (B.show(fb, 150), others))
                    break
            if atoms_b is not None and not has_q:
                try:
                    av = {a: R.evaluate(a, I) for a in atoms_b}
                    sv = skeleton_eval(fb, av, tm)
                except R.Unconstrained:
                    continue
                except KeyError as e:
                    bad('atoms-semantic', sk, 'truth of %s is not a function '
                        'of the reported atoms: %s is not reported' % (
                            B.show(fb, 150), B.show(e.args[0], 80)))
                    break
                rep.count('atom_skeleton_checks')
                if sv != v:
                    bad('atoms-semantic', sk, 'skeleton of %s over the '
                        'reported atoms gives %r, formula is %r' % (
                            B.show(fb, 150), sv, v))
                    break
        rep.case(key=hash(fb), sample=B.show(fb, 140) if j % 307 == 0
                 else None)


def special_cases():
    p, q = B.Sym('p0', B.BOOL), B.Sym('p1', B.BOOL)
    i0, i1 = B.Sym('i0', B.INT), B.Sym('i1', B.INT)
    fty = B.FUN(B.BOOL, (B.BOOL, B.INT))
    gty = B.FUN(B.INT, (B.BV(8),))
    hty = B.FUN(G.US, (G.US,))
    u = B.Sym('uS_0', G.US)
    a = B.Sym('a0', B.ARR(B.INT, B.BV(8)))
    ab = B.Sym('ab0', B.ARR(B.INT, B.BOOL))
    # parametric custom sorts of arity 1, 2, 3 (also nested, also only
    # inside arrays / function sorts / binders)
    UU, VV, WW = ('U', 'Uo'), ('U', 'Vo'), ('U', 'Wo')
    box = lambda t: ('U', 'Box', (t,))
    pair = lambda t1, t2: ('U', 'Pair', (t1, t2))
    tri = ('U', 'Tri', (B.INT, UU, B.BV(5)))
    psorts = [box(UU), box(box(VV)), B.ARR(B.INT, box(WW)),
              pair(box(UU), B.REAL), tri, box(B.ARR(box(B.BV(7)), UU)),
              B.FUN(box(VV), (box(box(WW)),))]
    par = []
    for k, t in enumerate(psorts):
        if t[0] == 'Fun':
            arg = B.Sym('c12_pa%d' % k, t[2][0])
            e = ('eq', None, (B.App('c12_pf%d' % k, t, (arg,)),
                              B.App('c12_pf%d' % k, t, (arg,))))
        else:
            e = ('eq', None, (B.Sym('c12_p%d' % k, t),
                              B.Sym('c12_q%d' % k, t)))
        par.append(e)
        par.append(('and', None, (p, ('forall', (('c12_b%d' % k, t if
                                                  t[0] != 'Fun' else
                                                  t[1]),), (q,)))))
    # sorts that occur only as the index sort of an array literal
    UI = ('U', 'OnlyIndex')
    par.append(('eq', None, (('arrayval', UI, (B.Int(0),)),
                             ('arrayval', UI, (B.Int(1),)))))
    par.append(('eq', None, (('select', None, (
        ('arrayval', B.BV(6), (B.Int(0),)), B.BVc(3, 6))), B.Int(0))))
    out = par + [
        # quantifier shadows a free symbol
        ('and', None, (p, ('forall', (('p0', B.BOOL),), (
            ('or', None, (p, q)),)))),
        ('exists', (('i0', B.INT),), (('le', None, (i0, i1)),)),
        ('and', None, (('le', None, (i0, i1)),
                       ('exists', (('i0', B.INT),), (
                           ('le', None, (i0, B.Int(3))),)))),
        # unused bound variable with a sort used nowhere else
        ('exists', (('uS_9', G.US),), (('and', None, (p, q)),)),
        ('forall', (('b8_9', B.BV(8)),), (p,)),
        # function symbols: as names and nested
        B.App('fb', fty, (('and', None, (p, q)), i0)),
        ('eq', None, (B.App('g', gty, (('select', None, (a, i0)),)), i1)),
        ('eq', None, (B.App('h', hty, (B.App('h', hty, (u,)),)), u)),
        # Boolean terms inside theory terms
        ('eq', None, (('ite', None, (('and', None, (p, q)), i0, i1)), i0)),
        ('select', None, (ab, ('ite', None, (p, i0, i1)))),
        ('iff', None, (('select', None, (ab, i0)), B.App('fb', fty, (q, i1)))),
        ('ite', None, (p, ('select', None, (ab, i0)),
                       ('le', None, (i0, i1)))),
        ('not', None, (('ite', None, (('le', None, (i0, i1)), p, q)),)),
        ('eq', None, (('store', None, (ab, i0, ('or', None, (p, q)))), ab)),
        ('and', None, (B.Bool(True), p)),
        ('exists', (('p0', B.BOOL),), (('eq', None, (
            ('ite', None, (p, i0, i1)), i1)),)),
        ('eq', None, (('ite', None, (
            ('exists', (('i9', B.INT),), (
                ('eq', None, (('times', None, (B.Int(2), B.Sym('i9', B.INT))),
                              i0)),)), B.Int(0), B.Int(1))), B.Int(0))),
    ]
    return out


def run(rep):
    M.NODE_MONITOR.install()
    ck = Checker(rep)
    rng = ck.rng
    common.fresh_env()
    j = 0
    if rep.shard == 0:
        for b in special_cases():
            ck.check(b, j)
            j += 1
    n = 700 if rep.tier == 'quick' else 60000
    cfgs = [G.Cfg(share=0.4), G.Cfg(quant=False, share=0.4),
            G.Cfg(max_depth=6, strings=False, share=0.5),
            G.Cfg(max_depth=4, qtypes=[B.BOOL, B.INT, G.US, B.BV(8)])]
    k = 0
    foreign = None
    while k < n and not rep.out_of_time():
        if k % 200 == 0:
            common.fresh_env()
            from pysmt.environment import Environment
            foreign = Environment()
        g = G.Gen(rng, cfgs[k % len(cfgs)])
        ty = rng.choice([B.BOOL, B.BOOL, B.BOOL, B.INT, B.BV(3), G.A_II])
        ck.check(g.term(ty), j, foreign=foreign if k % 5 == 4 else None)
        j += 1
        k += 1
    if k < n:
        rep.notes.append('truncated at %d of %d' % (k, n))


def replay(case, rep):
    common.fresh_env()
    ck = Checker(rep)
    foreign = None
    if case['case'].get('foreign'):
        # warm the current environment's analyses, then ask them about
        # the formula built in a second environment
        from pysmt.environment import Environment
        for j, b in enumerate(special_cases()):
            ck.check(b, j)
        foreign = Environment()
    ck.check(B.from_json(case['case']['bp']), 0, foreign=foreign)
