"""One C19 scenario in its own process group: a real Portfolio over reference
solver members whose delay and failure mode are set per query.

usage: python -m vf.c19_scenario SPEC.json   (events as JSON lines on stdout)

The process never decides the property: it reports what it observed
(verdicts, models, values, exceptions, a blocked parent) and the driver
(vf/c19.py) judges."""
import json
import os
import sys
import threading
import time
import warnings

from . import common

PY = '/venv/bin/python'
HERE = os.path.dirname(os.path.abspath(__file__))
REFSOLVER = os.path.join(HERE, 'refsolver.py')


def emit(**kw):
    sys.stdout.write(json.dumps(kw, default=str) + '\n')
    sys.stdout.flush()


class Watch(object):
    """Watches the parent while it is inside Portfolio.solve: when no member
    process is alive any more and the call still has not returned after a
    grace period, nobody is left who could ever write to the queue - the
    call blocks for ever.  Decided on process liveness, not on a deadline."""

    def __init__(self, answered_path):
        self.answered_path = answered_path
        self.in_solve = False
        self.since_dead = None
        self.stop = False
        self.t = threading.Thread(target=self.loop, daemon=True)
        self.t.start()

    def loop(self):
        import multiprocessing
        while not self.stop:
            time.sleep(0.05)
            if not self.in_solve:
                self.since_dead = None
                continue
            alive = multiprocessing.active_children()
            if alive:
                self.since_dead = None
                # a member published its answer long ago and the call
                # still has not returned
                try:
                    with open(self.answered_path) as f:
                        first = float(f.readline())
                    if time.time() - first > 15.0:
                        emit(ev='blocked', what='solve() still waiting 15 s '
                             'after a member published its answer',
                             despite_answer=True)
                        kill_group_and_exit(8)
                except (OSError, ValueError):
                    pass
                continue
            if self.since_dead is None:
                self.since_dead = time.time()
            elif time.time() - self.since_dead > 3.0:
                emit(ev='blocked', what='solve() still waiting 3 s after '
                     'the last member process ended')
                kill_group_and_exit(7)


def kill_group_and_exit(code):
    sys.stdout.flush()
    try:
        import signal
        signal.signal(signal.SIGTERM, signal.SIG_IGN)
        os.killpg(os.getpgid(0), signal.SIGTERM)
    except Exception:
        pass
    os._exit(code)


def install_gaps(spec):
    """Delay points (sys.monitoring LINE events) inside the real code:
    in the parent between receiving the first answer and terminating the
    losers, in the members between publishing the answer and waiting on the
    control pipe."""
    gaps = spec.get('gaps') or {}
    import pysmt.solvers.portfolio as P
    mon = sys.monitoring
    tool = mon.PROFILER_ID
    try:
        mon.use_tool_id(tool, 'c19')
    except ValueError:
        pass
    import inspect
    hits = {'parent': 0, 'child': 0}
    src, start = inspect.getsourcelines(P.Portfolio._solve)
    parent_line = None
    for i, line in enumerate(src):
        # the loop that terminates the losers: the last loop over the
        # member processes in _solve
        if line.strip().startswith('for ') and 'processes' in line:
            parent_line = start + i
    src2, start2 = inspect.getsourcelines(P._run_solver)
    child_line = None
    for i, line in enumerate(src2):
        if '_exit = False' in line:
            child_line = start2 + i
    code_p = P.Portfolio._solve.__wrapped__.__code__ \
        if hasattr(P.Portfolio._solve, '__wrapped__') \
        else P.Portfolio._solve.__code__
    code_c = P._run_solver.__code__

    def on_line(code, line):
        if code is code_p and line == parent_line and gaps.get('parent'):
            hits['parent'] += 1
            time.sleep(gaps['parent'] / 1000.0)
        elif code is code_c and line == child_line:
            # (runs in the member process, right after it published its
            # answer: recorded through files)
            try:
                with open(spec['plan_path'] + '.answered', 'a') as f:
                    f.write('%r\n' % time.time())
                if gaps.get('child'):
                    with open(spec['plan_path'] + '.childhits', 'a') as f:
                        f.write('x')
            except OSError:
                pass
            if gaps.get('child'):
                time.sleep(gaps['child'] / 1000.0)
        return None
    mon.register_callback(tool, mon.events.LINE, on_line)
    if parent_line is not None:
        mon.set_local_events(tool, code_p, mon.events.LINE)
    if child_line is not None:
        mon.set_local_events(tool, code_c, mon.events.LINE)
    hits['parent_line'] = parent_line
    hits['child_line'] = child_line
    return hits


def main():
    with open(sys.argv[1]) as f:
        spec = json.load(f)
    common.bind_repo()
    from . import bp as B
    from . import refeval as R
    from .c17 import truth
    import pysmt.logics as L
    from pysmt.solvers.portfolio import Portfolio
    env = common.fresh_env()
    plan_path = spec['plan_path']
    names = []
    for i, m in enumerate(spec['members']):
        name = m['name']
        if m.get('broken_binary'):
            args = ['/nonexistent/solver-binary']
        else:
            args = [PY, REFSOLVER, '--name', name, '--plan', plan_path]
        if name not in names or not spec.get('duplicate_names'):
            try:
                env.factory.add_generic_solver(name, args,
                                               list(L.PYSMT_LOGICS))
            except Exception:
                pass
        names.append(name)
    hits = install_gaps(spec)
    watch = Watch(spec['plan_path'] + '.answered')
    warnings.simplefilter('ignore')
    opts = {}
    if spec.get('exit_on_exception') is not None:
        opts['solver_options'] = {'exit_on_exception':
                                  bool(spec['exit_on_exception'])}
    frames = [[]]

    last_plan = [{}]

    def write_plan(plan):
        import glob
        last_plan[0] = plan
        for old in glob.glob(plan_path + '.claim.*') + \
                glob.glob(plan_path + '.answered'):
            try:
                os.unlink(old)
            except OSError:
                pass
        tmp = plan_path + '.tmp'
        with open(tmp, 'w') as f:
            json.dump(plan, f)
        os.replace(tmp, plan_path)

    def model_check(m, live, what):
        I = {}
        for b in live:
            for (n_, t) in B.free_syms(b):
                s = env.formula_manager.Symbol(n_, B.to_pytype(t, env))
                I[n_] = R.const_value(m.get_value(s))
        bad = [B.show(b, 80) for b in live if not R.evaluate(b, I)]
        emit(ev=what, ok=not bad, unsat_assertions=bad,
             model=dict((k, R.vrepr(v)) for k, v in I.items()))

    try:
        if spec.get('shortcut'):
            # factory shortcuts with portfolio=[...]
            for cyc in spec['cycles']:
                write_plan(cyc['plan'])
                fb = B.from_json(cyc['formula'])
                f = B.build(fb, env)
                q = B.describe(f)
                call = cyc['call']
                if call == 'is_sat':
                    exp = truth([q]) is not None
                elif call == 'is_unsat':
                    exp = truth([q]) is None
                else:
                    exp = truth([('not', None, (q,))]) is None
                watch.in_solve = True
                t0 = time.time()
                try:
                    got = getattr(env.factory, call)(f, portfolio=names,
                                                     logic=L.QF_BV)
                    emit(ev='solve', got=bool(got), exp=exp, call=call,
                         plan=cyc['plan'], s=time.time() - t0)
                except Exception as e:
                    emit(ev='solve-raised', exc=common.exc_name(e),
                         msg=str(e)[:200], plan=cyc['plan'], exp=exp)
                finally:
                    watch.in_solve = False
        else:
            s = Portfolio(names, environment=env, logic=L.QF_BV, **opts)
            try:
                for cyc in spec['cycles']:
                    write_plan(cyc['plan'])
                    for op in cyc['ops']:
                        if op[0] == 'assert':
                            f = B.build(B.from_json(op[1]), env)
                            s.add_assertion(f)
                            frames[-1].append(B.describe(f))
                        elif op[0] == 'is_sat':
                            f = B.build(B.from_json(op[1]), env)
                            live0 = [b for fr in frames for b in fr]
                            exp0 = truth(live0 + [B.describe(f)])
                            # (the plan of the previous query is still in
                            # force for this one)
                            write_plan(cyc['plan'])
                            watch.in_solve = True
                            try:
                                got0 = s.is_sat(f)
                                emit(ev='solve', got=bool(got0),
                                     exp=exp0 is not None, call='obj.is_sat',
                                     plan=last_plan[0])
                            except Exception as e:
                                emit(ev='solve-raised',
                                     exc=common.exc_name(e),
                                     msg=str(e)[:200], plan=last_plan[0],
                                     exp=exp0 is not None)
                            finally:
                                watch.in_solve = False
                        elif op[0] == 'push':
                            s.push()
                            frames.append([])
                        elif op[0] == 'pop':
                            s.pop()
                            frames.pop()
                    live = [b for fr in frames for b in fr]
                    got_asserts = [B.describe(a) for a in s.assertions]
                    emit(ev='assertions', same=(got_asserts == live),
                         n=len(live))
                    exp = truth(live)
                    write_plan(cyc['plan'])
                    watch.in_solve = True
                    t0 = time.time()
                    try:
                        got = s.solve()
                    except Exception as e:
                        watch.in_solve = False
                        emit(ev='solve-raised', exc=common.exc_name(e),
                             msg=str(e)[:200], plan=cyc['plan'],
                             exp=exp is not None)
                        continue
                    watch.in_solve = False
                    emit(ev='solve', got=bool(got), exp=exp is not None,
                         plan=cyc['plan'], s=time.time() - t0,
                         winner=getattr(s._ext_solver, 'name', None))
                    if got and cyc.get('model'):
                        try:
                            model_check(s.get_model(), live, 'model')
                        except Exception as e:
                            emit(ev='model-raised', exc=common.exc_name(e),
                                 msg=str(e)[:200])
                    if got and cyc.get('value'):
                        try:
                            # (only about symbols the members know: pySMT
                            # asserts simplified formulas, a symbol that
                            # was simplified away is never declared)
                            known = set()
                            for a in s.assertions:
                                for x in a.simplify().get_free_variables():
                                    known.add(x.symbol_name())
                            for b in live[:3]:
                                if not set(n for n, _ in B.free_syms(b)) \
                                        <= known:
                                    continue
                                v = s.get_value(B.build(b, env))
                                emit(ev='value', ok=v.is_true(),
                                     term=B.show(b, 80), got=str(v))
                        except Exception as e:
                            emit(ev='value-raised', exc=common.exc_name(e),
                                 msg=str(e)[:200])
            finally:
                try:
                    s.exit()
                    emit(ev='exit', ok=True)
                except Exception as e:
                    emit(ev='exit-raised', exc=common.exc_name(e),
                         msg=str(e)[:200])
    except Exception as e:
        import traceback
        emit(ev='harness-exception', exc=common.exc_name(e),
             msg=traceback.format_exc()[-800:])
    try:
        with open(spec['plan_path'] + '.childhits') as f:
            hits['child'] = len(f.read())
        os.unlink(spec['plan_path'] + '.childhits')
    except (OSError, KeyError, TypeError):
        pass
    emit(ev='done', gap_hits=hits)
    watch.stop = True
    kill_group_and_exit(0)


if __name__ == '__main__':
    main()
