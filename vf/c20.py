"""C20 - work linear in DAG size and independent of nesting depth."""
import os
import sys
import time
import warnings
from io import StringIO

from . import common
from . import monitors as M

PROP = 'C20'


# ---------------------------------------------------------------------------
# operator families
# ---------------------------------------------------------------------------
def families(env):
    """name -> (sort name, leaf(i) -> FNode, step(x, l1, l2, c1, c2) -> FNode)

    step builds one level from the previous term x, two fresh leaves of the
    sort and two fresh Boolean leaves."""
    import pysmt.typing as T
    mgr = env.formula_manager
    BV8 = T.BVType(8)
    ARR = T.ArrayType(T.INT, T.INT)
    F = {}

    def fam(name, sort, step):
        F[name] = (sort, step)
    fam('and', T.BOOL, lambda x, a, b, p, q: mgr.And(mgr.Or(x, a),
                                                      mgr.Or(x, b)))
    fam('or', T.BOOL, lambda x, a, b, p, q: mgr.Or(mgr.And(x, a),
                                                    mgr.And(x, b)))
    fam('implies', T.BOOL, lambda x, a, b, p, q: mgr.Implies(
        mgr.Implies(x, a), mgr.Implies(b, x)))
    fam('iff', T.BOOL, lambda x, a, b, p, q: mgr.Iff(mgr.Iff(x, a),
                                                      mgr.Iff(x, b)))
    fam('not', T.BOOL, lambda x, a, b, p, q: mgr.Not(mgr.And(
        mgr.Not(mgr.Or(x, a)), mgr.Not(mgr.Or(x, b)))))
    fam('ite_bool', T.BOOL, lambda x, a, b, p, q: mgr.Ite(
        mgr.Ite(p, x, a), mgr.Ite(q, x, b), x))
    for sort, nm in ((T.INT, 'int'), (T.REAL, 'real')):
        fam('plus_' + nm, sort, lambda x, a, b, p, q: mgr.Plus(
            mgr.Ite(p, x, a), mgr.Ite(q, x, b)))
        fam('minus_' + nm, sort, lambda x, a, b, p, q: mgr.Minus(
            mgr.Ite(p, x, a), mgr.Ite(q, x, b)))
        fam('times_' + nm, sort, lambda x, a, b, p, q: mgr.Times(
            mgr.Ite(p, x, a), mgr.Ite(q, x, b)))
        fam('ite_' + nm, sort, lambda x, a, b, p, q: mgr.Ite(
            p, mgr.Ite(q, x, a), mgr.Ite(q, b, x)))
    # directly nested n-ary operators (the simplifier flattens them)
    fam('and_flat', T.BOOL, lambda x, a, b, p, q: mgr.And(mgr.And(x, a),
                                                           mgr.And(b, x)))
    fam('or_flat', T.BOOL, lambda x, a, b, p, q: mgr.Or(mgr.Or(x, a),
                                                         mgr.Or(b, x)))
    fam('plus_flat_int', T.INT, lambda x, a, b, p, q: mgr.Plus(
        mgr.Plus(x, a), mgr.Plus(b, x)))
    fam('times_flat_real', T.REAL, lambda x, a, b, p, q: mgr.Times(
        mgr.Times(x, a), mgr.Times(b, x)))
    fam('bvadd_flat', BV8, lambda x, a, b, p, q: mgr.BVAdd(
        mgr.BVAdd(x, a), mgr.BVAdd(b, x)))
    for op in ('BVAdd', 'BVAnd', 'BVOr', 'BVXor', 'BVMul', 'BVSub',
               'BVLShl', 'BVLShr', 'BVUDiv', 'BVSDiv', 'BVAShr'):
        fam(op.lower(), BV8, lambda x, a, b, p, q, op=op: getattr(mgr, op)(
            getattr(mgr, op)(x, a), getattr(mgr, op)(b, x)))
    fam('div_int', T.INT, lambda x, a, b, p, q: mgr.Div(
        mgr.Div(x, a), mgr.Div(b, x)))
    fam('div_real', T.REAL, lambda x, a, b, p, q: mgr.Div(
        mgr.Div(x, a), mgr.Div(b, x)))
    fam('bvrot', BV8, lambda x, a, b, p, q: mgr.BVRol(mgr.BVXor(
        mgr.BVRor(x, 1), mgr.BVZExt(mgr.BVExtract(x, 1, 7), 1)), 2))
    fam('str_concat', T.STRING, lambda x, a, b, p, q: mgr.StrConcat(
        mgr.StrConcat(x, a), mgr.StrConcat(b, x)))
    FII = T.FunctionType(T.INT, [T.INT, T.INT])
    fam('function', T.INT, lambda x, a, b, p, q: mgr.Function(
        mgr.Symbol('c20_f', FII), [mgr.Function(mgr.Symbol('c20_f', FII),
                                                [x, a]),
                                   mgr.Function(mgr.Symbol('c20_f', FII),
                                                [b, x])]))
    fam('bvconcat', BV8, lambda x, a, b, p, q: mgr.BVExtract(
        mgr.BVConcat(mgr.BVAnd(x, a), mgr.BVOr(x, b)), 4, 11))
    fam('ite_bv', BV8, lambda x, a, b, p, q: mgr.Ite(
        p, mgr.Ite(q, x, a), mgr.Ite(q, b, x)))
    fam('bvnot', BV8, lambda x, a, b, p, q: mgr.BVNot(mgr.BVAdd(
        mgr.BVNeg(x), mgr.BVNot(x))))
    fam('store', ARR, lambda x, a, b, p, q: mgr.Store(
        mgr.Store(x, mgr.Select(x, mgr.Int(1)), mgr.Select(a, mgr.Int(2))),
        mgr.Select(x, mgr.Int(3)), mgr.Int(4)))
    fam('ite_array', ARR, lambda x, a, b, p, q: mgr.Ite(
        p, mgr.Ite(q, x, a), mgr.Ite(q, b, x)))
    fam('select', T.INT, lambda x, a, b, p, q: mgr.Select(
        mgr.Store(mgr.Symbol('c20_arr', ARR), x, a), mgr.Plus(x, b)))
    return F


def build_family(env, name, n, diamond=True, reject=False):
    """n levels.  diamond=True: every level uses the previous term twice
    (tree size exponential); diamond=False: a left-deep chain.  reject=True:
    after every level an ill-typed application of the current term is
    attempted (and refused), as a parser that tries alternative readings
    does."""
    import pysmt.typing as T
    mgr = env.formula_manager
    sort, step = families(env)[name]
    x = mgr.Symbol('c20_x_%s' % name, sort)
    for i in range(n):
        a = mgr.Symbol('c20_a%d_%s' % (i % 7, name), sort)
        b = mgr.Symbol('c20_b%d_%s' % (i % 5, name), sort)
        p = mgr.Symbol('c20_p%d' % (i % 3))
        q = mgr.Symbol('c20_q%d' % (i % 4))
        if diamond:
            x = step(x, a, b, p, q)
        else:
            x = chain_step(mgr, name, sort, x, a, p)
        if reject:
            try:
                if sort.is_bool_type():
                    mgr.Plus(x, mgr.Int(1))
                else:
                    mgr.And(x, p)
                raise AssertionError('ill-typed application accepted')
            except AssertionError:
                raise
            except Exception:
                pass
    if sort.is_bv_type():
        # an operator whose construction asks for the width of the deep term
        y = mgr.Symbol('c20_y_%s' % name, sort)
        x = mgr.Equals(mgr.BVAdd(x, y), y)
    elif not sort.is_bool_type():
        x = mgr.Equals(x, mgr.Symbol('c20_y_%s' % name, sort))
    return x


def chain_step(mgr, name, sort, x, a, p):
    if name in ('and', 'not'):
        return mgr.And(x, a) if name == 'and' else mgr.Not(mgr.And(x, a))
    if name == 'or':
        return mgr.Or(x, a)
    if name == 'implies':
        return mgr.Implies(a, x)
    if name == 'iff':
        return mgr.Iff(x, a)
    if name.startswith('ite'):
        return mgr.Ite(p, x, a)
    if name.startswith('plus'):
        return mgr.Plus(x, a)
    if name.startswith('minus'):
        return mgr.Minus(x, a)
    if name.startswith('times'):
        return mgr.Times(x, a)
    if name == 'bvconcat':
        return mgr.BVExtract(mgr.BVConcat(x, a), 4, 11)
    if name == 'bvnot':
        return mgr.BVNot(mgr.BVAdd(x, a))
    if name == 'store':
        return mgr.Store(x, mgr.Int(1), mgr.Select(a, mgr.Int(2)))
    if name == 'select':
        import pysmt.typing as T
        return mgr.Select(mgr.Symbol('c20_arr2', T.ArrayType(T.INT, T.INT)),
                          mgr.Plus(x, a))
    if name == 'and_flat':
        return mgr.And(x, a)
    if name == 'or_flat':
        return mgr.Or(x, a)
    if name == 'bvadd_flat':
        return mgr.BVAdd(x, a)
    for op in ('BVAdd', 'BVAnd', 'BVOr', 'BVXor', 'BVMul', 'BVSub', 'BVLShl',
               'BVLShr', 'BVUDiv', 'BVSDiv', 'BVSRem', 'BVURem', 'BVAShr'):
        if name == op.lower():
            return getattr(mgr, op)(x, a)
    if name.startswith('div'):
        return mgr.Div(x, a)
    if name == 'bvrot':
        return mgr.BVRol(mgr.BVXor(x, a), 1)
    if name == 'str_concat':
        return mgr.StrConcat(x, a)
    if name == 'function':
        import pysmt.typing as T
        return mgr.Function(mgr.Symbol('c20_f', T.FunctionType(
            T.INT, [T.INT, T.INT])), [x, a])
    raise ValueError(name)


def dag_size(f):
    seen = set()
    st = [f]
    while st:
        n = st.pop()
        if n in seen:
            continue
        seen.add(n)
        st.extend(n.args())
    return len(seen)


# ---------------------------------------------------------------------------
# counting
# ---------------------------------------------------------------------------
class Counter(object):
    def __init__(self):
        self.n = 0


def wrap_walker(w, counter):
    """Wrap the `functions` table of a walker instance."""
    for k, f in list(w.functions.items()):
        def g(*a, _f=f, **kw):
            counter.n += 1
            return _f(*a, **kw)
        w.functions[k] = g


class WorkBudgetExceeded(BaseException):
    """(BaseException: an `except Exception` inside the library must not
    swallow the abort; it is raised again at every further function entry /
    timer tick until the measurement is stopped.)"""
    pass


class CodeCounter(object):
    """Counts, through sys.monitoring PY_START, every Python function entry
    inside the pysmt package (`work`) and, separately, entries of walk_*
    callbacks / parser atoms (`walks`).  Class-level: all walker instances
    are seen, also the ones a procedure creates internally.  A budget aborts
    runaway work (logical steps, not wall-clock)."""

    def __init__(self):
        self.mon = sys.monitoring
        self.tool = self.mon.PROFILER_ID
        try:
            self.mon.use_tool_id(self.tool, 'vf-c20')
        except ValueError:
            pass
        self.counter = Counter()
        self.work = 0
        self.walks = 0
        self.budget = None
        self.active = False
        self.root = os.path.join(common.REPO, 'pysmt') + os.sep
        self.mon.register_callback(self.tool, self.mon.events.PY_START,
                                   self.cb)
        self.mon.set_events(self.tool, self.mon.events.PY_START)

    def watch(self, *a, **k):
        pass

    def cb(self, code, off):
        if not code.co_filename.startswith(self.root):
            return self.mon.DISABLE
        if not self.active:
            return None
        self.work += 1
        nm = code.co_name
        if nm.startswith('walk_') or nm in ('atom', '_enter_let',
                                            '_exit_let', 'res'):
            self.walks += 1
            self.counter.n += 1
        if self.budget is not None and self.work > self.budget:
            raise WorkBudgetExceeded(self.work)
        return None

    def start(self, budget, cpu_s=None):
        """budget: function entries inside pysmt; cpu_s: CPU seconds of
        this process (ITIMER_VIRTUAL: consumed work, not wall-clock - work
        done inside C calls such as list.extend on an exponentially long
        argument list is invisible to the entry counter)."""
        self.work = self.walks = 0
        self.counter.n = 0
        self.budget = budget
        self.active = True
        if cpu_s:
            import signal

            def on_cpu(signum, frame):
                if not self.active:
                    return
                raise WorkBudgetExceeded('%d entries and %d s of CPU' % (
                    self.work, cpu_s))
            signal.signal(signal.SIGVTALRM, on_cpu)
            signal.setitimer(signal.ITIMER_VIRTUAL, cpu_s, 1.0)
            self.armed = True

    def stop(self):
        self.active = False
        if getattr(self, 'armed', False):
            import signal
            signal.setitimer(signal.ITIMER_VIRTUAL, 0)
            self.armed = False
        return self.work, self.walks


def procedures(env, cc):
    """name -> fn(f) running the procedure and returning the number of
    per-node callbacks it used."""
    from pysmt import rewritings as RW
    from pysmt.oracles import (get_logic, SizeOracle, FreeVarsOracle,
                               AtomsOracle, TypesOracle, QuantifierOracle,
                               TheoryOracle)
    from pysmt.simplifier import Simplifier
    from pysmt.substituter import MGSubstituter
    from pysmt.type_checker import SimpleTypeChecker
    from pysmt.smtlib.parser import SmtLibParser
    from pysmt.smtlib.script import smtlibscript_from_formula
    mgr = env.formula_manager
    P = {}

    def with_walker(make, call):
        def run(f):
            c = Counter()
            w = make()
            wrap_walker(w, c)
            r = call(w, f)
            return c.n, r
        return run
    P['get_type'] = with_walker(lambda: SimpleTypeChecker(env),
                                lambda w, f: w.get_type(f))
    P['simplify'] = with_walker(lambda: Simplifier(env),
                                lambda w, f: w.simplify(f))

    def subst(w, f):
        fv = sorted((s for s in f.get_free_variables()
                     if s.symbol_name().startswith('c20_x')),
                    key=lambda s: s.symbol_name())
        x = fv[0]
        y = mgr.Symbol('c20_fresh_' + x.symbol_name(), x.symbol_type())
        return w.substitute(f, {x: y})
    P['substitute'] = with_walker(lambda: MGSubstituter(env), subst)
    P['free_vars'] = with_walker(lambda: FreeVarsOracle(env),
                                 lambda w, f: w.get_free_variables(f))
    P['atoms'] = with_walker(lambda: AtomsOracle(env),
                             lambda w, f: w.get_atoms(f))
    P['types'] = with_walker(lambda: TypesOracle(env),
                             lambda w, f: w.get_types(f))
    P['is_qf'] = with_walker(lambda: QuantifierOracle(env),
                             lambda w, f: w.is_qf(f))
    P['theory'] = with_walker(lambda: TheoryOracle(env),
                              lambda w, f: w.get_theory(f))
    for mname in ('TREE_NODES', 'DAG_NODES', 'DEPTH', 'SYMBOLS'):
        def size_run(f, m=getattr(SizeOracle, 'MEASURE_' + mname)):
            c = Counter()
            w = SizeOracle(env)
            orig = w.set_walking_measure

            def swm(measure):
                orig(measure)
                wrap_walker(w, c)
            w.set_walking_measure = swm
            with warnings.catch_warnings():
                warnings.simplefilter('ignore')
                r = w.get_size(f, m)
            return c.n, r
        P['size_' + mname] = size_run
    P['nnf'] = with_walker(lambda: RW.NNFizer(env), lambda w, f: w.convert(f))
    P['aig'] = with_walker(lambda: RW.AIGer(env), lambda w, f: w.convert(f))
    P['prenex'] = with_walker(lambda: RW.PrenexNormalizer(env),
                              lambda w, f: w.normalize(f))
    P['times_distributor'] = with_walker(lambda: RW.TimesDistributor(env),
                                         lambda w, f: w.walk(f))

    def logic(f):
        # get_logic uses the environment's oracles: wrap fresh ones
        c = Counter()
        q, t = QuantifierOracle(env), TheoryOracle(env)
        wrap_walker(q, c)
        wrap_walker(t, c)
        q.is_qf(f)
        t.get_theory(f)
        # and the real entry point once (uncounted) for failures
        get_logic(f, env)
        return c.n, None
    P['get_logic'] = logic

    def smt_print(f):
        return None, f.to_smtlib(daggify=True)
    P['to_smtlib_dag'] = smt_print

    def reparse(f):
        buf = StringIO()
        with warnings.catch_warnings():
            warnings.simplefilter('ignore')
            smtlibscript_from_formula(f).serialize(buf, daggify=True)
        txt = buf.getvalue()
        sc = SmtLibParser(env).get_script(StringIO(txt))
        g = sc.get_last_formula()
        if g is not f:
            raise AssertionError('re-parse returned another formula')
        return None, None
    P['reparse_dag'] = reparse

    def reserialize(f):
        # the script a parser returns (it carries an annotation table and
        # commands of its own), printed again with sharing
        buf = StringIO()
        with warnings.catch_warnings():
            warnings.simplefilter('ignore')
            smtlibscript_from_formula(f).serialize(buf, daggify=True)
            sc = SmtLibParser(env).get_script(StringIO(buf.getvalue()))
            out = StringIO()
            sc.serialize(out, daggify=True)
            # and the same script with its assertion named
            lines = buf.getvalue().split('\n')
            for i, ln in enumerate(lines):
                if ln.startswith('(assert ') and ln.endswith(')'):
                    lines[i] = '(assert (! %s :named c20_n))' % ln[8:-1]
            sc = SmtLibParser(env).get_script(StringIO('\n'.join(lines)))
            if not sc.annotations.all_annotated_formulae('named'):
                raise AssertionError('the annotation was not read')
            out = StringIO()
            sc.serialize(out, daggify=True)
        return None, None
    P['reserialize_parsed_dag'] = reserialize
    # rewriters that are plain functions (no walker): counted by function
    # entries inside pysmt
    P['conjunctive_partition'] = lambda f: (
        None, sum(1 for _ in RW.conjunctive_partition(f)))
    P['disjunctive_partition'] = lambda f: (
        None, sum(1 for _ in RW.disjunctive_partition(f)))
    P['propagate_toplevel'] = lambda f: (
        None, RW.propagate_toplevel(f, env, do_simplify=False))
    return P


def run_construction_rejections(rep, env, name, n):
    """Construction interleaved with refused ill-typed applications."""
    c = Counter()
    wrap_walker(env.stc, c)
    f = build_family(env, name, n, diamond=True, reject=True)
    return c.n, f


def run_construction(rep, env, name, n):
    """Type-check callbacks during construction (create_node -> stc)."""
    c = Counter()
    wrap_walker(env.stc, c)
    f = build_family(env, name, n, diamond=True)
    return c.n, f


BOOL_ONLY = ('nnf', 'aig', 'prenex')
ARITH_ONLY = ('times_distributor',)
BOOL_ONLY = ('conjunctive_partition', 'disjunctive_partition',
             'propagate_toplevel')
BOOL_FAMS = ('and', 'or', 'implies', 'iff', 'not', 'ite_bool', 'and_flat',
             'or_flat')


def applicable(proc, fam):
    if proc in ARITH_ONLY:
        return fam.split('_')[0] in ('plus', 'minus', 'times')
    if proc in BOOL_ONLY:
        return fam in BOOL_FAMS
    return True


def run(rep):
    quick = rep.tier == 'quick'
    N1, N2 = (30, 60) if quick else (100, 200)
    DEEP = 2000 if quick else 20000
    C = 4
    cc = CodeCounter()
    import pysmt.smtlib.printers as SP
    import pysmt.smtlib.parser.parser as PP
    M.NODE_MONITOR.install()
    # a runaway procedure must not take the machine down
    import resource
    resource.setrlimit(resource.RLIMIT_AS, (3 * 2 ** 30, 3 * 2 ** 30))
    env = common.fresh_env()
    fams = sorted(families(env))
    idx = 0
    for fam in fams:
        env = common.fresh_env()
        P = procedures(env, cc)
        pnames = sorted(P) + ['construction', 'construction_rejections']
        for proc in pnames:
            idx += 1
            if idx % rep.nshards != rep.shard:
                continue
            if rep.only and rep.only not in (proc, fam):
                continue
            if not applicable(proc, fam):
                continue
            if rep.out_of_time():
                rep.notes.append('truncated at %s/%s' % (fam, proc))
                return
            if os.environ.get('VERIF_TRACE'):
                sys.stderr.write('C20 %s %s\n' % (fam, proc))
                sys.stderr.flush()
            # ---- (1) diamonds: callbacks linear in the number of nodes
            counts = []
            try:
                for n in (N1, N2):
                    e2 = common.fresh_env()
                    P2 = procedures(e2, cc)
                    if proc in ('construction', 'construction_rejections'):
                        cc.start(None)
                        try:
                            k, f = (run_construction if proc ==
                                    'construction' else
                                    run_construction_rejections)(
                                        rep, e2, fam, n)
                        finally:
                            work, walks = cc.stop()
                        size = dag_size(f)
                    else:
                        f = build_family(e2, fam, n, diamond=True)
                        size = dag_size(f)
                        cc.start(3000 * size + 50000,
                                 cpu_s=20 if quick else 60)
                        try:
                            k, _ = P2[proc](f)
                        finally:
                            work, walks = cc.stop()
                        if k is None:
                            k = work if proc in BOOL_ONLY else walks
                    counts.append((n, size, k, work))
            except WorkBudgetExceeded as e:
                rep.violation('C20/work-budget-exceeded/%s/%s' % (proc, fam),
                              '%s on a %d-level %s diamond (%d nodes) was '
                              'aborted after %s function entries inside '
                              'pysmt (budget 3000 per node)' % (
                                  proc, n, fam, size, e),
                              {'proc': proc, 'fam': fam})
                continue
            except RecursionError as e:
                rep.violation('C20/recursion/%s/%s' % (proc, fam),
                              '%s on a %d-level %s diamond: RecursionError' %
                              (proc, n, fam), {'proc': proc, 'fam': fam})
                continue
            except Exception as e:
                rep.violation('C20/raises/%s/%s/%s' % (
                    proc, fam, common.exc_name(e)),
                    '%s on a %d-level %s diamond raised %r at %s' % (
                        proc, n, fam, e, common.tb_short(e)),
                    {'proc': proc, 'fam': fam})
                continue
            rep.count('diamond_measurements')
            rep.case(key=(proc, fam),
                     sample='%s on %s diamonds: %s (levels, dag nodes, '
                     'callbacks, pysmt function entries)' % (proc, fam,
                                                            counts)
                     if idx % 23 == 0 else None)
            (n1, s1, k1, w1), (n2, s2, k2, w2) = counts
            if k2 == 0:
                rep.count('zero_callbacks_observed')
                rep.violation('C20/inconclusive-counter/%s' % proc,
                              'no callback counted for %s' % proc)
                continue
            rep.count('callbacks_counted', k1 + k2)
            rep.count('function_entries_counted', w1 + w2)
            # token-level measures (printer / parser) see each node a few
            # more times (let name, operator, references): larger constant
            cc_ = 20 if proc in ('reparse_dag', 'to_smtlib_dag') else C
            if proc == 'reserialize_parsed_dag':
                cc_ = 75
            if proc in BOOL_ONLY:
                cc_ = 60     # function entries, not callbacks
            if k2 > cc_ * s2 or (k1 > 0 and k2 > 2.5 * k1):
                rep.violation(
                    'C20/superlinear/%s/%s' % (proc, fam),
                    '%s on %s diamonds: %d callbacks for %d nodes (%d '
                    'levels), %d callbacks for %d nodes (%d levels); bound '
                    'is %d x nodes and 2.5x growth' % (
                        proc, fam, k1, s1, n1, k2, s2, n2, cc_),
                    {'proc': proc, 'fam': fam})
            elif w1 > 200 and w2 > 6.0 * w1 * (float(s2) / (2 * s1)):
                rep.violation(
                    'C20/superlinear-work/%s/%s' % (proc, fam),
                    '%s on %s diamonds: %d function entries inside pysmt '
                    'for %d nodes, %d for %d nodes (more than 6x when the '
                    'DAG doubles: worse than quadratic)' % (proc, fam, w1, s1, w2, s2),
                    {'proc': proc, 'fam': fam})
            # ---- (1b) memory held per node must not grow with the depth
            flattening = (proc in ('simplify', 'nnf', 'prenex', 'aig') and
                          fam in ('and', 'or', 'not', 'and_flat',
                                  'or_flat')) or (
                proc in ('simplify', 'times_distributor') and
                fam.split('_')[0] in ('plus', 'minus', 'times'))
            # (bottom-up flattening of a left-deep n-ary chain memoises a
            # result with k arguments at level k: quadratic by design, see
            # DESIGN.md; not measured here)
            if not proc.startswith('construction') and idx % 2 == 0 \
                    and not flattening:
                import tracemalloc
                peaks = []
                try:
                    for d_ in ((300, 600) if quick else (800, 1600)):
                        e4 = common.fresh_env()
                        P4 = procedures(e4, cc)
                        f4 = build_family(e4, fam, d_, diamond=False)
                        tracemalloc.start()
                        try:
                            P4[proc](f4)
                            peaks.append(tracemalloc.get_traced_memory()[1])
                        finally:
                            tracemalloc.stop()
                    rep.count('memory_growth_measurements')
                    if peaks[1] > 3.2 * peaks[0] and peaks[1] > 8 * 2 ** 20:
                        rep.violation(
                            'C20/superlinear-memory/%s' % proc,
                            '%s on %s chains: peak memory %.1f MB at the '
                            'first depth, %.1f MB at twice the depth (more '
                            'than 3.2x: memory per node grows with the '
                            'depth)' % (proc, fam, peaks[0] / 2.0 ** 20,
                                        peaks[1] / 2.0 ** 20),
                            {'proc': proc, 'fam': fam})
                except (RecursionError, MemoryError, WorkBudgetExceeded):
                    pass      # reported by the deep-chain part below
                except Exception:
                    pass
            # ---- (2) deep chains under the default recursion limit
            if proc in ('size_TREE_NODES', 'size_DEPTH', 'size_SYMBOLS'):
                continue
            depth = DEEP
            if proc == 'size_DAG_NODES':
                # (quadratic memory, recorded: keep the machine alive)
                depth = min(DEEP, 4000)
            quadratic = False
            if (proc in ('simplify', 'nnf', 'prenex', 'aig') and
                    fam in ('and', 'or', 'not', 'and_flat', 'or_flat')) or (
                    proc in ('simplify', 'times_distributor') and
                    fam.split('_')[0] in ('plus', 'minus', 'times')):
                # flattening of nested n-ary operators is quadratic in the
                # chain length (callbacks stay linear): shorter chain, still
                # deeper than the recursion limit
                depth = min(DEEP, 1500)
                quadratic = True
            try:
                e3 = common.fresh_env()
                P3 = procedures(e3, cc)
                if proc == 'construction':
                    f = build_family(e3, fam, depth, diamond=False)
                elif proc == 'construction_rejections':
                    f = build_family(e3, fam, min(depth, 3000),
                                     diamond=False, reject=True)
                else:
                    f = build_family(e3, fam, depth, diamond=False)
                    cc.start(None if quadratic
                             else 3000 * (4 * depth + 10) + 50000, cpu_s=240)
                    try:
                        P3[proc](f)
                    finally:
                        cc.stop()
                rep.count('deep_chains_ok')
            except WorkBudgetExceeded as e:
                rep.violation('C20/work-budget-exceeded/%s/%s' % (proc, fam),
                              '%s on a %s chain of depth %d was aborted '
                              'after %s function entries inside pysmt' % (
                                  proc, fam, depth, e),
                              {'proc': proc, 'fam': fam})
            except RecursionError:
                rep.violation('C20/recursion/%s/%s' % (proc, fam),
                              '%s on a %s chain of depth %d: RecursionError '
                              'under the default recursion limit' % (
                                  proc, fam, depth),
                              {'proc': proc, 'fam': fam})
            except MemoryError as e:
                # (address space limited to 3 GB for the shard)
                rep.violation('C20/memory-exhausted/%s' % proc,
                              '%s on a %s chain of depth %d needs more than '
                              '3 GB of memory' % (proc, fam, depth),
                              {'proc': proc, 'fam': fam})
            except Exception as e:
                rep.violation('C20/raises/%s/%s/%s' % (
                    proc, fam, common.exc_name(e)),
                    '%s on a %s chain of depth %d raised %r at %s' % (
                        proc, fam, depth, e, common.tb_short(e)),
                    {'proc': proc, 'fam': fam})


def replay(case, rep):
    c = case.get('case') or {}
    rep.nshards, rep.shard = 1, 0
    rep.only = c.get('proc')
    run(rep)
