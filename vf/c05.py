"""C05 - substitution lemma and the documented replacement order."""
import random
import warnings

from . import bp as B
from . import gen as G
from . import judge as J
from . import monitors as M
from . import common
from . import refeval as R
from .c04 import canon, norm, norm_node

PROP = 'C05'


# --------------------------------------------------------------------------
# independent definition of MGS / MSS over blueprints
# --------------------------------------------------------------------------
def cn(b):
    return canon(norm(b))


def rebuild(op, pl, ks):
    return canon(norm_node(op, pl, tuple(ks)))


def instantiate(body, formals, actuals):
    """body[formals := actuals] (formals are (name, type) pairs)."""
    subs = {B.Sym(n, t): a for (n, t), a in zip(formals, actuals)}
    return refsubst(body, subs, {}, 'mgs')


def refsubst(b, subs, interps, mode):
    """subs: dict canonical-blueprint -> canonical-blueprint.
    interps: dict (fname, ftype) -> (formals, body)."""
    op, pl, kids = b
    if op in ('forall', 'exists'):
        bound = set(pl)
        active = {k: v for k, v in subs.items()
                  if not (B.free_syms(k) & bound)}
        body = refsubst(kids[0], active, interps, mode)
        new = rebuild(op, pl, (body,))
        if mode == 'mgs':
            return subs[b] if b in subs else new
        return subs.get(new, new)
    if mode == 'mgs' and b in subs:
        return subs[b]
    ks = [refsubst(c, subs, interps, mode) for c in kids]
    if op == 'app' and pl in interps:
        formals, body = interps[pl]
        new = cn(instantiate(body, formals, ks))
    else:
        new = rebuild(op, pl, ks)
    if mode == 'mss':
        return subs.get(new, new)
    return new


# --------------------------------------------------------------------------
# capture analysis (own binder analysis)
# --------------------------------------------------------------------------
def captured(b, submap, bound=frozenset()):
    """True if some free occurrence of a key symbol lies under a quantifier
    binding a free symbol of its replacement."""
    op, pl, kids = b
    if op == 'sym':
        if pl in bound:
            return False
        v = submap.get(pl)
        if v is not None and (B.free_syms(v) & bound):
            return True
        return False
    if op in ('forall', 'exists'):
        nb = bound | frozenset(pl)
        return captured(kids[0], submap, nb)
    return any(captured(c, submap, bound) for c in kids)


def app_capture(b, interps, bound=frozenset()):
    """True if an interpreted application's actual parameters mention a
    symbol that is bound inside the interpretation body, or the application
    sits under a binder that... (bodies are closed, so only the former)."""
    op, pl, kids = b
    if op in ('forall', 'exists'):
        return app_capture(kids[0], interps, bound | frozenset(pl))
    if op == 'app' and pl in interps:
        formals, body = interps[pl]
        bvars = set()
        for s in B.subterms(body):
            if s[0] in ('forall', 'exists'):
                bvars |= set(s[1])
        for c in kids:
            if B.free_syms(c) & bvars:
                return True
    return any(app_capture(c, interps, bound) for c in kids)


class Checker(object):
    def __init__(self, rep):
        self.rep = rep
        self.rng = random.Random(rep.seed * 49979687 + rep.shard)

    # ---- (a) substitution lemma on symbol maps ---------------------------
    def lemma_once(self, b, smap, mode):
        """smap: dict (name,type) -> blueprint. -> (kind, info)"""
        from pysmt.environment import get_env
        from pysmt.substituter import MSSubstituter, MGSubstituter
        env = get_env()
        try:
            f = B.build(b, env)
            fsubs = {B.build(B.Sym(*k), env): B.build(v, env)
                     for k, v in smap.items()}
        except Exception as e:
            return 'build', repr(e)
        fb = B.describe(f)
        smap_d = {k: B.describe(fsubs[B.build(B.Sym(*k), env)])
                  for k in smap}
        try:
            if mode == 'default':
                r = f.substitute(fsubs)
            elif mode == 'mgs':
                r = MGSubstituter(env).substitute(f, fsubs)
            else:
                r = MSSubstituter(env).substitute(f, fsubs)
        except Exception as e:
            return 'exc:' + common.exc_name(e), '%r at %s' % (
                e, common.tb_short(e))
        rb = B.describe(r)
        try:
            if B.typeof(rb) != B.typeof(fb):
                return 'type', 'type changed: %s' % B.show(rb, 150)
        except B.IllTyped as e:
            return 'type', 'ill-typed result %s' % e
        if captured(fb, smap_d):
            self.rep.count('capture_skipped')
            return None, None
        # bound occurrences never replaced + lemma, semantically
        syms = set(B.free_syms(fb)) | set(B.free_syms(rb))
        for v in smap_d.values():
            syms |= set(B.free_syms(v))
        syms |= set(smap_d)
        has_q = B.has_op(fb, ('forall', 'exists'))
        n = 0
        for idx, I in enumerate(R.interpretations(
                syms, self.rng, n_samples=20, seed=self.rep.seed)):
            D = J.QDOMS[idx % len(J.QDOMS)] if has_q else None
            try:
                I2 = dict(I)
                for (name, t), v in smap_d.items():
                    I2[name] = R.evaluate(v, I, D)
                v1 = R.evaluate(fb, I2, D)
                v2 = R.evaluate(rb, I, D)
            except R.Unconstrained:
                continue
            n += 1
            if v1 != v2:
                return 'lemma', (
                    '%s with {%s} gave %s; under %s original=%s result=%s'
                    % (B.show(fb, 160), ', '.join(
                        '%s: %s' % (k[0], B.show(v, 60))
                        for k, v in smap_d.items()), B.show(rb, 160),
                       {k: R.vrepr(v) for k, v in I.items()}, R.vrepr(v1),
                       R.vrepr(v2)))
        if n:
            self.rep.count('lemma_compared')
            self.rep.count('interpretations', n)
        return None, None

    # ---- (b) term keys: exact MGS / MSS result ----------------------------
    def exact_once(self, b, pairs, mode):
        """pairs: list of (key-blueprint, value-blueprint)."""
        from pysmt.environment import get_env
        from pysmt.substituter import MSSubstituter, MGSubstituter
        env = get_env()
        try:
            f = B.build(b, env)
            fs = {}
            for k, v in pairs:
                fs[B.build(k, env)] = B.build(v, env)
        except Exception as e:
            return 'build', repr(e)
        fb = canon(B.describe(f))
        subs = {canon(B.describe(k)): canon(B.describe(v))
                for k, v in fs.items()}
        try:
            expected = refsubst(fb, subs, {}, 'mss' if mode == 'mss'
                                else 'mgs')
            B.typeof(expected)
        except B.IllTyped:
            self.rep.count('reference_result_ill_typed_skipped')
            return None, None
        try:
            if mode == 'default':
                r = f.substitute(fs)
            elif mode == 'mgs':
                r = MGSubstituter(env).substitute(f, fs)
            else:
                r = MSSubstituter(env).substitute(f, fs)
        except Exception as e:
            return 'exc:' + common.exc_name(e), '%r at %s' % (
                e, common.tb_short(e))
        rb = canon(B.describe(r))
        self.rep.count('exact_compared')
        if rb != expected:
            return 'exact-' + ('mss' if mode == 'mss' else 'mgs'), (
                '%s with {%s}: got %s expected %s' % (
                    B.show(fb, 160), ', '.join('%s: %s' % (
                        B.show(k, 50), B.show(v, 50))
                        for k, v in subs.items()),
                    B.show(rb, 160), B.show(expected, 160)))
        return None, None

    # ---- (c) function interpretations --------------------------------------
    def interp_once(self, b, interps, smap, mode):
        """interps: dict (fname, fty) -> (formals, body-bp)."""
        from pysmt.environment import get_env
        from pysmt.substituter import (MSSubstituter, MGSubstituter,
                                       FunctionInterpretation)
        env = get_env()
        try:
            f = B.build(b, env)
            fi = {}
            for (fn, fty), (formals, body) in interps.items():
                plist = [B.build(B.Sym(*p), env) for p in formals]
                fi[B.build(B.Sym(fn, fty), env)] = FunctionInterpretation(
                    plist, B.build(body, env))
                # the caller goes on using its list of parameters
                plist.reverse()
                plist.append(f)
            fsubs = {B.build(B.Sym(*k), env): B.build(v, env)
                     for k, v in smap.items()}
        except Exception as e:
            return 'build', repr(e)
        fb = B.describe(f)
        self.ninterp = getattr(self, 'ninterp', 0) + 1
        try:
            if mode == 'default' and self.ninterp % 3 == 0:
                # the module-level entry point (no map at all when there
                # is nothing but interpretations)
                import pysmt.shortcuts as SC
                self.rep.count('interp_through_shortcut')
                r = SC.substitute(f, fsubs if fsubs else (
                    None if self.ninterp % 2 else {}), fi)
            elif mode == 'default':
                r = f.substitute(fsubs, fi)
            elif mode == 'mgs':
                r = MGSubstituter(env).substitute(f, fsubs, fi)
            else:
                r = MSSubstituter(env).substitute(f, fsubs, fi)
        except Exception as e:
            return 'exc:' + common.exc_name(e), '%r at %s' % (
                e, common.tb_short(e))
        rb = B.describe(r)
        for s in B.subterms(rb):
            if s[0] == 'app' and s[1] in interps:
                return 'interp-left', 'application of %s left in %s' % (
                    s[1][0], B.show(rb, 200))
        smap_d = {k: B.describe(B.build(v, env)) for k, v in smap.items()}
        if captured(fb, smap_d) or app_capture(fb, interps):
            self.rep.count('capture_skipped')
            return None, None
        syms = set(B.free_syms(fb)) | set(B.free_syms(rb)) | set(smap_d)
        for v in smap_d.values():
            syms |= set(B.free_syms(v))
        has_q = B.has_op(fb, ('forall', 'exists'))
        n = 0
        for idx, I in enumerate(R.interpretations(
                syms, self.rng, n_samples=16, seed=self.rep.seed)):
            D = J.QDOMS[idx % len(J.QDOMS)] if has_q else None
            I2 = dict(I)

            def mk(formals, body, D=D):
                def call(args):
                    return R.evaluate(body, dict(
                        (p[0], a) for p, a in zip(formals, args)), D)
                return call
            try:
                for (name, t), v in smap_d.items():
                    I2[name] = R.evaluate(v, I, D)
                for (fn, fty), (formals, body) in interps.items():
                    I2[fn] = mk(formals, body)
                v1 = R.evaluate(fb, I2, D)
                v2 = R.evaluate(rb, I, D)
            except R.Unconstrained:
                continue
            n += 1
            if v1 != v2:
                # diagnosis: the same call once more, here and in a fresh
                # environment (is the result state-dependent?)
                diag = ''
                try:
                    from pysmt.environment import Environment, push_env, \
                        pop_env
                    if mode == 'default':
                        r2 = f.substitute(fsubs, fi)
                    elif mode == 'mgs':
                        r2 = MGSubstituter(env).substitute(f, fsubs, fi)
                    else:
                        r2 = MSSubstituter(env).substitute(f, fsubs, fi)
                    diag += ' [same call again: %s]' % (
                        'same result' if r2 is r else 'ANOTHER result %s' %
                        B.show(B.describe(r2), 120))
                    e2 = Environment()
                    push_env(e2)
                    try:
                        f3 = B.build(b, e2)
                        fi3 = {}
                        for (fn, fty), (formals, body) in interps.items():
                            fi3[B.build(B.Sym(fn, fty), e2)] = \
                                FunctionInterpretation(
                                    [B.build(B.Sym(*p), e2)
                                     for p in formals], B.build(body, e2))
                        fs3 = {B.build(B.Sym(*k), e2): B.build(v, e2)
                               for k, v in smap.items()}
                        S3 = {'default': e2.substituter.__class__,
                              'mgs': MGSubstituter,
                              'mss': MSSubstituter}[mode]
                        r3 = S3(e2).substitute(f3, fs3, fi3)
                        diag += ' [fresh environment: %s]' % (
                            'same result' if B.describe(r3) == rb else
                            'ANOTHER result %s' % B.show(B.describe(r3),
                                                         120))
                    finally:
                        pop_env()
                except Exception as e:
                    diag += ' [diagnosis failed: %r]' % e
                return 'interp', (
                    '%s with %s and map %s gave %s; under %s original=%s '
                    'result=%s%s' % (
                        B.show(fb, 160), {k[0]: B.show(v[1], 60)
                                          for k, v in interps.items()},
                        {k[0]: B.show(v, 60) for k, v in smap_d.items()},
                        B.show(rb, 160), {k: R.vrepr(v) for k, v in I.items()
                                          if not callable(v)},
                        R.vrepr(v1), R.vrepr(v2), diag))
        if n:
            self.rep.count('interp_compared')
        return None, None

    def report(self, proc, kind, info, b, extra, again=None, detail=''):
        if kind is None:
            return
        if kind == 'build':
            self.rep.count('build_rejected')
            return
        if again is not None:
            if not hasattr(self, 'sb'):
                self.sb = J.ShrinkBudget(self.rep, 25)

            def fails(x):
                return again(x)[0] == kind
            key, m = self.sb.classify(PROP, proc, kind, b, fails)
            if m is not None and m is not b:
                info = 'minimal %s :: %s' % (B.show(m, 120), again(m)[1])
                b = m
            if detail:
                key += '/' + detail
            self.rep.violation(key, '%s: %s' % (kind, info),
                               dict(extra, bp=B.to_json(b), kind=kind))
            return
        key = '%s/%s/%s/%s' % (PROP, proc, kind, J.shape_key(b, 1))
        self.rep.violation(key, '%s: %s' % (kind, info),
                           dict(extra, bp=B.to_json(b), kind=kind))


def pick_terms(b, rng, n, want_type=None):
    subs = [s for s in B.subterms(b)]
    tm = {}
    out = []
    rng.shuffle(subs)
    for s in subs:
        try:
            t = B.typeof(s, tm)
        except B.IllTyped:
            continue
        if t[0] == 'Fun':
            continue
        if want_type is not None and t != want_type:
            continue
        out.append((s, t))
        if len(out) >= n:
            break
    return out


def has_literal_requirements(b):
    return B.has_op(b, ('arrayval', 'pow'))


def run(rep):
    M.install_substitute_contract()
    M.NODE_MONITOR.install()
    if rep.shard == 0 and rep.tier != 'quick':
        # the repository's own tests with the contract on
        common.run_repo_tests_monitored(rep, ('substitute:',))
    ck = Checker(rep)
    rng = ck.rng
    quick = rep.tier == 'quick'
    n = 900 if quick else 60000
    modes = ['default', 'mgs', 'mss']
    cfgs = [G.Cfg(max_depth=4, share=0.35),
            G.Cfg(max_depth=5, strings=False, share=0.4),
            G.Cfg(max_depth=4, arrays=False, bv=False, share=0.4,
                  qtypes=[B.BOOL, B.INT]),
            G.Cfg(max_depth=4, uf=True, quant=True, share=0.3)]
    # quantifiers that share the very same body but bind different
    # variables, shadowing, nested re-binding: with constant replacements
    if rep.shard == 0 and (not rep.only or rep.only == 'lemma'):
        common.fresh_env()
        x, y, z = B.Sym('i0', B.INT), B.Sym('i1', B.INT), B.Sym('i2', B.INT)
        p, q = B.Sym('p0', B.BOOL), B.Sym('p1', B.BOOL)
        X, Y, P, Qv = ('i0', B.INT), ('i1', B.INT), ('p0', B.BOOL), \
            ('p1', B.BOOL)
        body = ('lt', None, (('plus', None, (x, y)), z))
        bb = ('or', None, (p, ('and', None, (q, ('lt', None, (x, y))))))
        specials = [
            ('and', None, (('forall', (X,), (body,)),
                           ('exists', (Y,), (body,)))),
            ('or', None, (('exists', (X,), (body,)),
                          ('forall', (Y,), (body,)), body)),
            ('and', None, (('forall', (X, Y), (body,)),
                           ('exists', (Y,), (body,)),
                           ('forall', (X,), (body,)))),
            ('and', None, (('forall', (P,), (bb,)),
                           ('exists', (Qv,), (bb,)), bb)),
            ('iff', None, (('forall', (P,), (bb,)),
                           ('forall', (Qv, X), (bb,)))),
            ('forall', (X,), (('and', None, (
                body, ('exists', (X,), (body,)),
                ('exists', (Y,), (body,)))),)),
        ]
        maps = [{X: B.Int(1), Y: B.Int(2)}, {X: B.Int(1)}, {Y: B.Int(2)},
                {X: z, Y: B.Int(0)}, {P: B.Bool(True), Qv: B.Bool(False)},
                {P: B.Bool(False), X: B.Int(3)}, {Qv: q, Y: z}]
        for b0 in specials:
            for m0 in maps:
                for mode in modes:
                    kind, info = ck.lemma_once(b0, m0, mode)
                    rep.count('special_quantifier_cases')
                    ck.report('lemma-' + mode, kind, info, b0, {
                        'smap': {k[0]: B.to_json(v)
                                 for k, v in m0.items()}},
                        again=lambda x_, m0=m0, mode=mode: ck.lemma_once(
                            x_, m0, mode), detail='plain-map')
    # interpretations together with a map one of whose keys is also bound
    # by a quantifier of the formula
    if rep.shard == 1 % rep.nshards and (not rep.only or
                                         rep.only == 'interp'):
        common.fresh_env()
        x, y = B.Sym('i0', B.INT), B.Sym('i1', B.INT)
        X = ('i0', B.INT)
        fty = B.FUN(B.INT, (B.INT,))
        gty = B.FUN(B.BOOL, (B.INT, B.INT))
        fx = lambda a: B.App('c05f', fty, (a,))
        gx = lambda a, c: B.App('c05g', gty, (a, c))
        fp = ('fp0i', B.INT)
        gp = [('gp0i', B.INT), ('gp1i', B.INT)]
        interps = {('c05f', fty): ([fp], ('plus', None, (B.Sym(*fp),
                                                         B.Int(1)))),
                   ('c05g', gty): (gp, ('lt', None, (B.Sym(*gp[0]),
                                                     B.Sym(*gp[1]))))}
        forms = [
            ('and', None, (('exists', (X,), (('eq', None, (fx(x), y)),)),
                           ('lt', None, (B.Int(3), x)))),
            ('or', None, (('forall', (X,), (gx(fx(x), y),)), gx(x, fx(y)))),
            ('and', None, (gx(x, y), ('exists', (X, ('i1', B.INT)), (
                gx(fx(x), fx(y)),)))),
            ('forall', (X,), (('or', None, (gx(x, fx(x)),
                                            ('exists', (X,), (
                                                ('eq', None, (fx(x), y)),)),
                                            )),)),
        ]
        maps = [{X: B.Int(7)}, {X: B.Int(7), ('i1', B.INT): B.Int(2)},
                {('i1', B.INT): B.Int(5)}, {}]
        for b0 in forms:
            for m0 in maps:
                for mode in modes:
                    kind, info = ck.interp_once(b0, interps, m0, mode)
                    rep.count('special_interp_cases')
                    ck.report('interp-' + mode, kind, info, b0, {})
    for j in range(n):
        if rep.out_of_time():
            rep.notes.append('truncated at %d of %d' % (j, n))
            break
        if j % 200 == 0:
            common.fresh_env()
        g = G.Gen(rng, cfgs[j % len(cfgs)])
        b = g.term(rng.choice([B.BOOL, B.BOOL, B.BOOL, B.INT, B.BV(3)]))
        mode = modes[j % 3]
        which = j % 4
        if j % 5 == 2:
            # a substitution that fails half-way (ill-typed replacement for
            # the last free symbol) right before the one under test: it
            # must leave nothing behind in the shared substituter
            try:
                from pysmt.environment import get_env
                env_ = get_env()
                f_ = B.build(b, env_)
                fv_ = sorted((s_ for s_ in f_.get_free_variables()
                              if not s_.symbol_type().is_function_type()),
                             key=lambda s_: s_.symbol_name())
                if len(fv_) >= 2:
                    mg_ = env_.formula_manager
                    bad_ = mg_.Int(5) if not fv_[-1].symbol_type() \
                        .is_int_type() else mg_.TRUE()
                    other_ = [y_ for y_ in fv_[:-1] if y_.symbol_type() ==
                              fv_[0].symbol_type() and y_ is not fv_[0]]
                    m_ = {fv_[-1]: bad_}
                    if other_:
                        m_[fv_[0]] = other_[0]
                    M.SUSPENDED[0] = True
                    try:
                        f_.substitute(m_)
                        rep.count('ill_typed_substitution_did_not_fail')
                    except Exception:
                        rep.count('failing_substitutions_before_a_check')
                    finally:
                        M.SUSPENDED[0] = False
            except Exception:
                pass
        rep.case(key=hash(b) ^ j, sample='%s [%s]' % (B.show(b, 120), mode)
                 if j % 211 == 0 else None)
        # ---- (a) symbol maps
        if which in (0, 1) and (not rep.only or rep.only == 'lemma'):
            fs = sorted(s for s in B.free_syms(b) if s[1][0] != 'Fun')
            # also names that occur only bound
            for s in B.subterms(b):
                if s[0] in ('forall', 'exists'):
                    for v in s[1]:
                        if v not in fs:
                            fs.append(v)
            if not fs:
                continue
            smap = {}
            style = rng.random()
            for k in rng.sample(fs, min(len(fs), rng.randint(1, 4))):
                r = rng.random()
                if style < 0.15:
                    smap[k] = B.Sym(*k)                       # identity
                elif r < 0.35:
                    same = [s for s in fs if s[1] == k[1] and s != k]
                    smap[k] = B.Sym(*rng.choice(same)) if same else \
                        g.term(k[1], 1)
                else:
                    smap[k] = g.term(k[1], rng.randint(0, 2))
            if style > 0.85 and len(fs) >= 2:
                same = [(a, c) for a in fs for c in fs
                        if a < c and a[1] == c[1]]
                if same:
                    a, c = rng.choice(same)
                    smap = {a: B.Sym(*c), c: B.Sym(*a)}       # swap
            kind, info = ck.lemma_once(b, smap, mode)
            detail = 'map-has-negation' if any(
                v[0] == 'not' for v in smap.values()) else 'plain-map'
            ck.report('lemma-' + mode, kind, info, b, {
                'smap': {k[0]: B.to_json(v) for k, v in smap.items()}},
                again=lambda x, smap=smap, mode=mode: ck.lemma_once(
                    x, smap, mode), detail=detail)
        # ---- (b) term keys
        elif which == 2 and (not rep.only or rep.only == 'exact'):
            cands = pick_terms(b, rng, 4)
            if not cands:
                continue
            pairs = []
            for (k, t) in cands[:rng.randint(1, 4)]:
                if has_literal_requirements(b) and not k[2]:
                    if k[0] != 'sym':
                        continue
                r = rng.random()
                others = [c for c in pick_terms(b, rng, 20, t) if c[0] != k]
                if r < 0.3 and others:
                    v = rng.choice(others)[0]      # value is another subterm
                elif r < 0.45 and pairs:
                    same = [p for p in pairs if B.typeof(p[0]) == t]
                    v = rng.choice(same)[0] if same else g.term(t, 1)
                else:
                    v = g.term(t, rng.randint(0, 2))
                pairs.append((k, v))
            # x and Not(x) both keys
            if rng.random() < 0.2:
                bs = [c for c in pick_terms(b, rng, 20, B.BOOL)
                      if c[0][0] != 'not']
                if bs:
                    x = bs[0][0]
                    pairs.append((x, g.term(B.BOOL, 1)))
                    pairs.append((('not', None, (x,)), g.term(B.BOOL, 1)))
            if not pairs:
                continue
            m2 = 'mss' if mode == 'mss' else mode
            kind, info = ck.exact_once(b, pairs, m2)
            ck.report('exact-' + m2, kind, info, b, {
                'pairs': [(B.to_json(k), B.to_json(v)) for k, v in pairs]})
        # ---- (c) interpretations
        elif which == 3 and (not rep.only or rep.only == 'interp'):
            funs = sorted(set(s[1] for s in B.subterms(b) if s[0] == 'app'))
            if not funs:
                # force applications
                g2 = G.Gen(rng, G.Cfg(max_depth=3, uf=True))
                name, fty = g2.fun(rng.choice([B.INT, B.BOOL, B.BV(3)]))
                inner = B.App(name, fty, [g2.term(p, 1) for p in fty[2]])
                outer = B.App(name, fty, [
                    inner if p == fty[1] and rng.random() < 0.7
                    else g2.term(p, 1) for p in fty[2]])
                t = fty[1]
                if t == B.BOOL:
                    b = ('and', None, (outer, g2.term(B.BOOL, 2)))
                else:
                    b = ('eq', None, (outer, g2.term(t, 2)))
                if rng.random() < 0.5:
                    qv = ('qv0i', B.INT)
                    b = ('forall', (qv,), (('or', None, (
                        b, ('le', None, (B.Sym(*qv), B.Int(0))))),))
                funs = [(name, fty)]
            interps = {}
            for (fn, fty) in funs:
                if rng.random() < 0.8:
                    formals = [('fp%d%s' % (i, G.sym_name(p)), p)
                               for i, p in enumerate(fty[2])]
                    gb = G.Gen(rng, G.Cfg(max_depth=2, uf=False, quant=(
                        rng.random() < 0.2), nsyms=1))
                    # body over the formals only
                    body = gb.term(fty[1], 2)
                    ren = {}
                    fsy = sorted(B.free_syms(body))
                    ok = True
                    for s in fsy:
                        same = [p for p in formals if p[1] == s[1]]
                        if not same:
                            ok = False
                            break
                        ren[B.Sym(*s)] = B.Sym(*rng.choice(same))
                    if not ok:
                        body = (G.const_bp(fty[1], G.consts_of(fty[1])[0])
                                if G.consts_of(fty[1]) else None)
                        if body is None:
                            continue
                    else:
                        body = refsubst(body, ren, {}, 'mgs')
                    interps[(fn, fty)] = (formals, body)
            if not interps:
                continue
            fs = sorted(s for s in B.free_syms(b) if s[1][0] != 'Fun')
            smap = {}
            if fs and rng.random() < 0.5:
                k = rng.choice(fs)
                smap[k] = g.term(k[1], 1)
                # the replacement must not mention an interpreted function
                if any(s[0] == 'app' and s[1] in interps
                       for s in B.subterms(smap[k])):
                    smap = {}
            if mode == 'mss' and any(v[0] == 'not' for v in smap.values()):
                # x -> Not(..) under MSS is the recorded double-negation
                # re-lookup (key C05/lemma-mss/...): the interpretation
                # workload keeps clear of that one mechanism
                rep.count('mss_negation_maps_left_to_the_lemma_workload')
                smap = {}
            kind, info = ck.interp_once(b, interps, smap, mode)
            ck.report('interp-' + mode, kind, info, b, {})
    for name, info in M.PENDING:
        fb = info[0]
        rep.violation('%s/contract/%s/%s' % (PROP, name,
                                             J.shape_key(fb, 1)),
                      'contract %s: %s -> %s' % (name, B.show(fb, 120),
                                                 B.show(info[1], 120)),
                      {'bp': B.to_json(fb)})
    del M.PENDING[:]
    rep.count('contract_evals', M.COUNTS.get('substitute_contract', 0))


def replay(case, rep):
    rep.only = None
    run(rep)
