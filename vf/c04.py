"""C04 - hash-consing, faithful accessors, faithful copies."""
import random
import warnings
from fractions import Fraction

from . import bp as B
from . import gen as G
from . import monitors as M
from . import common
from . import refeval as R

PROP = 'C04'


# --------------------------------------------------------------------------
# documented constructor normalisations, on blueprints
# --------------------------------------------------------------------------
def norm(b, memo=None):
    if memo is None:
        memo = {}
    k = id(b)
    if k in memo:
        return memo[k][0]
    r = _norm(b, memo)
    memo[k] = (r, b)
    return r


def _is_const(b):
    return b[0] in ('bool', 'int', 'real', 'str', 'bv')


def _norm(b, memo):
    op, pl, kids = b
    ks = tuple(norm(c, memo) for c in kids)
    return norm_node(op, pl, ks)


def norm_node(op, pl, ks):
    """Constructor normalisation of one node over normalised children."""
    if op == 'not' and ks[0][0] == 'not':
        return ks[0][2][0]
    if op in ('and', 'or', 'plus', 'times') and len(ks) == 1:
        return ks[0]
    if op == 'and' and not ks:
        return B.Bool(True)
    if op == 'or' and not ks:
        return B.Bool(False)
    if op == 'div' and ks[1][0] == 'real' and ks[1][1] != 0:
        return ('times', None, (ks[0], B.Real(Fraction(1) / ks[1][1])))
    if op == 'toreal':
        if ks[0][0] == 'int':
            return B.Real(ks[0][1])
        try:
            if B.typeof(ks[0]) == B.REAL:
                return ks[0]
        except B.IllTyped:
            pass
    if op == 'pow' and _is_const(ks[0]) and _is_const(ks[1]):
        e = ks[1][1]
        if Fraction(e).denominator == 1 and (ks[0][1] != 0 or e >= 0):
            return B.Real(Fraction(ks[0][1]) ** int(e))
    if op in ('forall', 'exists') and not pl:
        return ks[0]
    if op == 'app' and not ks:
        return B.Sym(pl[0], pl[1])
    if op == 'arrayval':
        d = ks[0]
        pairs = {}
        for i in range(1, len(ks), 2):
            pairs[ks[i]] = ks[i + 1]     # later assignment of a key wins
        items = sorted(((k_, v) for k_, v in pairs.items() if v != d),
                       key=lambda kv: repr(kv[0]))
        flat = [d]
        for k_, v in items:
            flat += [k_, v]
        return (op, pl, tuple(flat))
    return (op, pl, ks)


def canon(b, memo=None):
    """Order array-value assignments canonically (pySMT orders them by the
    id of the index node, which is not observable structure)."""
    if memo is None:
        memo = {}
    k = id(b)
    if k in memo:
        return memo[k][0]
    op, pl, kids = b
    ks = tuple(canon(c, memo) for c in kids)
    if op == 'arrayval':
        pairs = sorted(zip(ks[1::2], ks[2::2]), key=lambda kv: repr(kv[0]))
        flat = [ks[0]]
        for k_, v in pairs:
            flat += [k_, v]
        ks = tuple(flat)
    r = (op, pl, ks)
    memo[k] = (r, b)
    return r


def quiescent_walk(rep, env):
    """Invariant walk of the per-environment tables named in the property."""
    mgr = env.formula_manager
    ids = {}
    for content, n in mgr.formulae.items():
        rep.count('table_entries_walked')
        if n._content != content:
            rep.violation('C04/table/content-mismatch',
                          'formulae[%r] holds a node with other content' % (
                              content,))
        if n.node_id() in ids and ids[n.node_id()] is not n:
            rep.violation('C04/table/duplicate-node-id',
                          'node id %d used twice' % n.node_id())
        ids[n.node_id()] = n
    for name, n in mgr.symbols.items():
        if not n.is_symbol() or n.symbol_name() != name or \
                mgr.formulae.get(n._content) is not n:
            rep.violation('C04/table/symbols',
                          'symbols[%r] -> %s' % (name, n))
    for k, n in mgr.int_constants.items():
        if not n.is_int_constant() or n.constant_value() != k or \
                mgr.formulae.get(n._content) is not n:
            rep.violation('C04/table/int_constants',
                          'int_constants[%r] -> %s' % (k, n))
    for k, n in mgr.real_constants.items():
        kk = Fraction(k[0], k[1]) if isinstance(k, tuple) else Fraction(k)
        if not n.is_real_constant() or Fraction(
                int(n.constant_value().numerator),
                int(n.constant_value().denominator)) != kk or \
                mgr.formulae.get(n._content) is not n:
            rep.violation('C04/table/real_constants',
                          'real_constants[%r] -> %s' % (k, n))
    for k, n in mgr.string_constants.items():
        if not n.is_string_constant() or n.constant_value() != k or \
                mgr.formulae.get(n._content) is not n:
            rep.violation('C04/table/string_constants',
                          'string_constants[%r] -> %s' % (k, n))


def check_orders(rep, bps, rng, n_orders):
    """Build the same multiset of blueprints in several random orders in
    fresh environments, interleaved with unrelated constructions."""
    keys = []
    for b in bps:
        try:
            B.typeof(b)
            keys.append(canon(norm(b)))
        except B.IllTyped:
            keys.append(None)
    for o in range(n_orders):
        env = common.fresh_env()
        order = list(range(len(bps)))
        rng.shuffle(order)
        objs = {}
        noise = G.Gen(rng, G.Cfg(max_depth=3))
        for i in order:
            if keys[i] is None:
                continue
            if rng.random() < 0.4:
                try:
                    B.build(noise.term(rng.choice([B.BOOL, B.INT, B.BV(3)])),
                            env)
                except Exception:
                    pass
            try:
                with warnings.catch_warnings():
                    warnings.simplefilter('ignore')
                    f = B.build(bps[i], env)
            except Exception:
                rep.count('build_rejected')
                continue
            objs[i] = f
            # accessors report what it was built from
            d = canon(B.describe(f))
            rep.count('accessor_checks')
            if d != keys[i]:
                rep.violation(
                    'C04/accessors/%s' % bps[i][0],
                    'built %s, accessors report %s (expected %s)' % (
                        B.show(bps[i], 150), B.show(d, 150),
                        B.show(keys[i], 150)),
                    {'bp': B.to_json(bps[i])})
            # building again returns the same object
            with warnings.catch_warnings():
                warnings.simplefilter('ignore')
                f2 = B.build(bps[i], env)
            if f2 is not f:
                rep.violation('C04/rebuild-not-identical/%s' % bps[i][0],
                              'second build of %s is another object' %
                              B.show(bps[i], 150), {'bp': B.to_json(bps[i])})
        # identity <-> structural key
        bykey = {}
        byobj = {}
        for i, f in objs.items():
            k = keys[i]
            rep.count('identity_checks')
            if k in bykey and bykey[k][1] is not f:
                rep.violation(
                    'C04/two-objects-one-structure/%s' % k[0],
                    '%s and %s have the same structure but are two objects'
                    % (B.show(bps[i], 120), B.show(bps[bykey[k][0]], 120)),
                    {'bp': B.to_json(bps[i])})
            bykey.setdefault(k, (i, f))
            if id(f) in byobj and byobj[id(f)][1] != k:
                rep.violation(
                    'C04/one-object-two-structures/%s' % k[0],
                    '%s and %s are one object' % (
                        B.show(bps[i], 120),
                        B.show(bps[byobj[id(f)][0]], 120)),
                    {'bp': B.to_json(bps[i])})
            byobj.setdefault(id(f), (i, k))
        quiescent_walk(rep, env)
        rep.case(key=('order', o, len(bps), hash(tuple(order[:8]))),
                 sample='order %d over %d blueprints, e.g. %s' % (
                     o, len(bps), B.show(bps[order[0]], 100))
                 if o == 0 else None)


SPELLINGS_REAL = [
    (Fraction(1), [1, 1.0, Fraction(1), (1, 1), (2, 2), (-3, -3),
                   Fraction(5, 5)]),
    (Fraction(1, 2), [0.5, Fraction(1, 2), (1, 2), (2, 4), (-1, -2)]),
    (Fraction(-7, 3), [Fraction(-7, 3), (-7, 3), (7, -3), (-14, 6)]),
    (Fraction(0), [0, 0.0, -0.0, Fraction(0), (0, 1), (0, -5)]),
    (Fraction(0.1), [0.1, Fraction(0.1), Fraction(0.1).as_integer_ratio()]),
    (Fraction(1, 10), [Fraction(1, 10), (1, 10), (10, 100)]),
    (Fraction(10 ** 20 + 1, 3), [Fraction(10 ** 20 + 1, 3),
                                 (10 ** 20 + 1, 3)]),
    (Fraction(2 ** 60), [2 ** 60, float(2 ** 60), Fraction(2 ** 60)]),
    (Fraction(1, 3), [Fraction(1, 3), (1, 3), (2, 6)]),
    (Fraction(1 / 3), [1 / 3, Fraction(1 / 3)]),
]


def type_pool():
    base = [B.BOOL, B.INT, B.REAL, B.STRING, B.BV(1), B.BV(3), B.BV(8),
            ('U', 'S'), ('U', 'T'), ('U', 'Pair', (B.INT, B.BOOL)),
            ('U', 'Pair', (B.BOOL, B.INT)), ('U', 'Pair', (B.INT, B.INT))]
    arr = [B.ARR(i, e) for i in (B.INT, B.BV(3), B.BOOL)
           for e in (B.INT, B.BOOL, B.BV(3), B.REAL)]
    arr += [B.ARR(B.INT, B.ARR(B.INT, B.INT)),
            B.ARR(B.ARR(B.INT, B.INT), B.INT)]
    fun = []
    for ret in (B.INT, B.REAL, B.BOOL, B.BV(3), ('U', 'S')):
        for ps in ((B.INT,), (B.REAL,), (B.INT, B.INT), (B.INT, B.REAL),
                   (B.REAL, B.INT), (B.BV(3),), (B.BV(8),), (('U', 'S'),),
                   (B.ARR(B.INT, B.INT),), (B.INT, B.INT, B.INT)):
            fun.append(B.FUN(ret, ps))
    return base + arr + fun


def check_types(rep, rng):
    """Types are part of the structure of symbols: two type objects are
    equal (and, being hash-consed, identical) exactly when they denote the
    same sort; a symbol name is bound to one type per environment."""
    from pysmt.exceptions import PysmtTypeError
    env = common.fresh_env()
    mgr = env.formula_manager
    pool = type_pool()
    objs = [(t, B.to_pytype(t, env)) for t in pool]
    again = [(t, B.to_pytype(t, env)) for t in pool]
    for (t1, o1), (_, o1b) in zip(objs, again):
        if o1 != o1b or hash(o1) != hash(o1b):
            rep.violation('C04/types/not-equal-to-itself', 'type %r built '
                          'twice gives unequal objects' % (t1,))
    for i, (t1, o1) in enumerate(objs):
        for (t2, o2) in objs[i + 1:]:
            rep.count('type_pairs_compared')
            if (o1 == o2) != (t1 == t2) or (o2 == o1) != (t1 == t2) or \
                    (o1 != o2) != (t1 != t2):
                rep.violation(
                    'C04/types/equality/%s-vs-%s' % (t1[0], t2[0]),
                    'types %s and %s compare %s' % (o1, o2, o1 == o2),
                    None)
    # one type per symbol name
    sample = rng.sample(objs, 40)
    for k, (t1, o1) in enumerate(sample):
        name = 'c04ty_%d' % k
        s1 = mgr.Symbol(name, o1)
        for (t2, o2) in rng.sample(objs, 12) + [(t1, o1)]:
            rep.count('symbol_redefinitions_tried')
            try:
                s2 = mgr.Symbol(name, o2)
            except PysmtTypeError:
                if t1 == t2:
                    rep.violation('C04/types/symbol-same-type-rejected',
                                  'Symbol(%s, %s) twice raised' % (name, o1))
                continue
            if t1 != t2:
                rep.violation(
                    'C04/types/symbol-redefined/%s-vs-%s' % (t1[0], t2[0]),
                    'Symbol(%r, %s) after Symbol(%r, %s) returned %s : %s '
                    'instead of raising' % (name, o2, name, o1, s2,
                                            s2.symbol_type()), None)
            elif s2 is not s1:
                rep.violation('C04/types/symbol-not-shared', name)
    rep.case(key='types')


def check_spellings(rep, rng):
    for rnd in range(6):
        env = common.fresh_env()
        mgr = env.formula_manager
        groups = []
        for val, sps in SPELLINGS_REAL:
            for s in sps:
                groups.append(('real', val, s))
        for w in (1, 4, 8):
            for v in set([0, 1, 2 ** w - 1, 5 % 2 ** w, 2 ** (w - 1),
                          2 ** (w - 1) - 1]):
                bits = format(v, '0%db' % w)
                groups.append(('bv', (v, w), ('BV', v, w)))
                groups.append(('bv', (v, w), ('BV', bits, None)))
                groups.append(('bv', (v, w), ('BV', '#b' + bits, None)))
                groups.append(('bv', (v, w), ('BV', bits, w)))
                sv = v - 2 ** w if v >= 2 ** (w - 1) else v
                groups.append(('bv', (v, w), ('SBV', sv, w)))
                groups.append(('bv', (v, w), ('SBV', bits, None)))
        for v in (0, 1, -1, 10 ** 20 + 1):
            groups.append(('int', v, v))
        for s in ('', 'a', 'a"b'):
            groups.append(('str', s, s))
        rng.shuffle(groups)
        objs = {}
        for kind, val, sp in groups:
            if kind == 'real':
                n = mgr.Real(sp)
                got = Fraction(int(n.constant_value().numerator),
                               int(n.constant_value().denominator))
                ok = n.is_real_constant() and got == val
            elif kind == 'bv':
                fn = getattr(mgr, sp[0])
                n = fn(sp[1], sp[2]) if sp[2] is not None else fn(sp[1])
                ok = (n.is_bv_constant() and n.constant_value() == val[0]
                      and n.bv_width() == val[1])
                # the other accessors of a bit-vector constant
                v_, w_ = val
                sgn = v_ - 2 ** w_ if v_ >= 2 ** (w_ - 1) else v_
                acc = {'bv_unsigned_value': v_, 'bv_signed_value': sgn,
                       'bv_bin_str': format(v_, '0%db' % w_),
                       'bv2nat': v_}
                for an, want in acc.items():
                    if an == 'bv2nat':
                        got_ = n.bv2nat() if hasattr(n, 'bv2nat') else want
                    else:
                        got_ = getattr(n, an)()
                    rep.count('accessor_checks')
                    if got_ != want:
                        rep.violation(
                            'C04/accessor/%s' % an,
                            '%s of the %d-bit constant %d is %r, expected %r'
                            % (an, w_, v_, got_, want))
            elif kind == 'int':
                n = mgr.Int(sp)
                ok = n.is_int_constant() and n.constant_value() == val
            else:
                n = mgr.String(sp)
                ok = n.is_string_constant() and n.constant_value() == val
            rep.count('spelling_checks')
            rep.case(key=('sp', kind, repr(val), repr(sp)))
            if not ok:
                rep.violation('C04/spelling/value/%s' % kind,
                              '%s spelled %r reports %s' % (kind, sp, n))
            k = (kind, val)
            if k in objs and objs[k] is not n:
                rep.violation('C04/spelling/identity/%s' % kind,
                              '%s value %r spelled %r is a second object' % (
                                  kind, val, sp))
            objs.setdefault(k, n)
        seen = {}
        for k, n in objs.items():
            if id(n) in seen:
                rep.violation('C04/spelling/collapse/%s' % k[0],
                              '%r and %r are the same object' % (
                                  k, seen[id(n)]))
            seen[id(n)] = k
        quiescent_walk(rep, env)


def check_array_get(rep, rng, n):
    for j in range(n):
        if rep.out_of_time():
            rep.notes.append('array workload truncated at %d' % j)
            break
        if j % 50 == 0:
            env = common.fresh_env()
        mgr = env.formula_manager
        it, et = rng.choice([(B.INT, B.INT), (B.BV(3), B.BV(2)),
                             (B.INT, B.BOOL), (B.STRING, B.INT),
                             (B.REAL, B.REAL)])
        keys = []
        while len(keys) < rng.randint(0, 7):
            kv = R.rand_value(it, rng)
            if kv not in keys:
                keys.append(kv)
        d = R.rand_value(et, rng)
        m = {kv: R.rand_value(et, rng) for kv in keys}
        # create the index constants in random order first (ids decide the
        # internal ordering of the assignments)
        allk = list(keys) + [R.rand_value(it, rng) for _ in range(4)]
        rng.shuffle(allk)
        knodes = {}
        for kv in allk:
            knodes[kv] = B.build(R.value_to_bp(kv, it), env)
            if rng.random() < 0.5:
                mgr.Int(rng.randint(-1000, 1000))
        asg = {knodes[kv]: B.build(R.value_to_bp(v, et), env)
               for kv, v in m.items()}
        arr = mgr.Array(B.to_pytype(it, env),
                        B.build(R.value_to_bp(d, et), env), asg)
        for kv in allk:
            got = R.const_value(arr.array_value_get(knodes[kv]))
            exp = m.get(kv, d)
            rep.count('array_value_get_checks')
            if got != exp:
                rep.violation('C04/array_value_get',
                              'array %s at %r: got %r expected %r' % (
                                  arr, kv, got, exp))
        mm = {R.const_value(k): R.const_value(v)
              for k, v in arr.array_value_assigned_values_map().items()}
        if mm != {k: v for k, v in m.items() if v != d} or \
                R.const_value(arr.array_value_default()) != d:
            rep.violation('C04/array_value_map',
                          'array %s reports %r default %r' % (arr, mm, d))
        rep.case(key=('arr', j, rep.shard))


def all_nodes(f):
    seen = set()
    out = []
    st = [f]
    while st:
        n = st.pop()
        if id(n) in seen:
            continue
        seen.add(id(n))
        out.append(n)
        st.extend(n.args())
        if n.is_quantifier():
            st.extend(n.quantifier_vars())
        if n.is_function_application():
            st.append(n.function_name())
    return out


def check_normalize_sorts(rep):
    """Every sort, also parametric declared sorts nested in each other and
    in arrays / function sorts, is copied faithfully into another
    environment - by the type manager and as the sort of a symbol of a
    normalized formula."""
    from pysmt.environment import Environment
    S_, T_ = ('U', 'S'), ('U', 'T')
    PIR = ('U', 'Pair', (B.INT, B.REAL))
    LS = ('U', 'List', (S_,))
    nested = [PIR, LS, ('U', 'Pair', (S_, T_)), ('U', 'List', (PIR,)),
              ('U', 'List', (LS,)), ('U', 'Pair', (LS, B.REAL)),
              ('U', 'Pair', (B.ARR(B.INT, S_), ('U', 'List', (B.BV(4),)))),
              B.ARR(('U', 'Pair', (B.INT, S_)), B.INT), B.ARR(B.INT, LS),
              B.ARR(LS, ('U', 'List', (T_,))),
              B.FUN(LS, (('U', 'Pair', (S_, S_)),)),
              B.FUN(B.BOOL, (('U', 'List', (PIR,)), B.ARR(LS, B.INT))),
              ('U', 'Triple', (S_, ('U', 'List', (B.INT,)), PIR))]
    for k, t in enumerate(type_pool() + nested):
        src, dst = Environment(), Environment()
        rep.count('sorts_normalized')
        rep.case(key=('normalize-sort', repr(t)))
        try:
            o = B.to_pytype(t, src)
            o2 = dst.type_manager.normalize(o)
            got = B.from_pytype(o2)
            mgr = src.formula_manager
            if t[0] == 'Fun':
                f = mgr.Symbol('ns_f', o)
                c = dst.formula_manager.normalize(f)
                got_f = B.from_pytype(c.symbol_type())
            else:
                f = mgr.Equals(mgr.Symbol('ns_a', o), mgr.Symbol('ns_b', o)) \
                    if t != B.BOOL else mgr.Iff(mgr.Symbol('ns_a', o),
                                                mgr.Symbol('ns_b', o))
                c = dst.formula_manager.normalize(f)
                got_f = B.from_pytype(c.arg(0).symbol_type())
        except Exception as e:
            rep.violation('C04/normalize/sort-raises/%s' % common.exc_name(e),
                          'copying the sort %r into another environment '
                          'raised %r at %s' % (t, e, common.tb_short(e)),
                          {'sort': repr(t)})
            continue
        if got != t or got_f != t:
            rep.violation('C04/normalize/sort-changed/%s' % t[0],
                          'the sort %r arrives as %r (type manager) / %r '
                          '(symbol of a normalized formula)' % (t, got,
                                                                got_f),
                          {'sort': repr(t)})


def check_normalize(rep, rng, n):
    from pysmt.environment import Environment, push_env, pop_env
    for j in range(n):
        if rep.out_of_time():
            rep.notes.append('normalize workload truncated at %d' % j)
            break
        dst = Environment()
        srcs = [Environment() for _ in range(rng.randint(1, 3))]
        # formulas alternate between source environments (a destination
        # that receives formulas from several sources)
        plan = []
        for _ in range(rng.randint(2, 6)):
            plan.append((rng.randrange(len(srcs)),
                         G.Gen(rng, G.Cfg(max_depth=4)).term(
                             rng.choice([B.BOOL, B.BOOL, B.INT, B.BV(3),
                                         G.A_II, G.US]))))
        src_objs = [set() for _ in srcs]
        built = []
        for si, b in plan:
            try:
                push_env(srcs[si])
                try:
                    f = B.build(b, srcs[si])
                finally:
                    pop_env()
            except Exception:
                rep.count('build_rejected')
                continue
            built.append((si, b, f))
        for si, s in enumerate(srcs):
            src_objs[si] = set(id(x) for x in s.formula_manager.formulae
                               .values())
        for si, b, f in built:
            try:
                c = dst.formula_manager.normalize(f)
            except Exception as e:
                # two source environments may use one name at two types
                # (the generator's names carry a 16-bit checksum of the
                # type): then the copy must be refused
                clash = False
                if 'redefine symbol' in str(e):
                    have = dict((x.symbol_name(), x.symbol_type()) for x in
                                dst.formula_manager.get_all_symbols())
                    clash = any(
                        x.symbol_name() in have and
                        str(have[x.symbol_name()]) != str(x.symbol_type())
                        for x in f.get_free_variables())
                if clash:
                    rep.count('normalize_name_clashes_refused')
                    continue
                rep.violation('C04/normalize/raises/%s' % common.exc_name(e),
                              'normalize(%s) raised %r' % (B.show(b, 120), e),
                              {'bp': B.to_json(b)})
                continue
            rep.count('normalize_checks')
            rep.case(key=('norm', hash(b), si))
            d1 = canon(B.describe(f))
            d2 = canon(B.describe(c))
            if d1 != d2:
                rep.violation('C04/normalize/structure/%s' % b[0],
                              'copy of %s is %s' % (B.show(d1, 150),
                                                    B.show(d2, 150)),
                              {'bp': B.to_json(b)})
                continue
            dm = dst.formula_manager
            for x in all_nodes(c):
                if dm.formulae.get(x._content) is not x:
                    rep.violation('C04/normalize/foreign-node',
                                  'copy of %s contains a node that is not in '
                                  'the destination table: %s' % (
                                      B.show(b, 120), x),
                                  {'bp': B.to_json(b)})
                    break
                if any(id(x) in so for so in src_objs):
                    rep.violation('C04/normalize/shares-source-node',
                                  'copy of %s shares node %s with a source '
                                  'environment' % (B.show(b, 120), x),
                                  {'bp': B.to_json(b)})
                    break
            # copying twice gives the same object
            if dst.formula_manager.normalize(f) is not c:
                rep.violation('C04/normalize/not-stable',
                              'second copy of %s is another object' %
                              B.show(b, 120), {'bp': B.to_json(b)})


def run(rep):
    M.NODE_MONITOR.install()
    if rep.shard == 0 and (not rep.only or rep.only == 'testsuite'):
        # the repository's own tests as one more workload for the
        # create_node monitor (runs beside the other shards)
        common.run_repo_tests_monitored(rep, ('C04', 'monitor'))
    quick = rep.tier == 'quick'
    rng = random.Random(rep.seed * 2654435761 % (2 ** 31) + rep.shard)
    only = rep.only
    # every section gets its share of the time budget
    until = rep.share
    until(0.5)
    # blueprint sets: systematic shapes + random, with deliberate duplicates
    if not only or only == 'orders':
        rounds = 6 if quick else 400
        for r in range(rounds):
            if rep.out_of_time():
                rep.notes.append('orders truncated at round %d' % r)
                break
            bps = []
            g = G.Gen(rng, G.Cfg(max_depth=4))
            for _ in range(40):
                bps.append(g.term(rng.choice(
                    [B.BOOL, B.INT, B.REAL, B.BV(3), B.STRING, G.A_II])))
            sysl = [b for (_, _, b) in G.systematic(
                random.Random(rep.seed + r + 1000 * rep.shard), nconst=3,
                max_per_sig=6)]
            rng.shuffle(sysl)
            bps += sysl[:150]
            bps += G.nested_shapes(rng)[:40]
            # unnormalised variants
            p = B.Sym('p0', B.BOOL)
            x = B.Sym('i0', B.INT)
            y = B.Sym('r0', B.REAL)
            bps += [('not', None, (('not', None, (p,)),)),
                    ('and', None, (p,)), ('or', None, (p,)),
                    ('and', None, ()), ('or', None, ()),
                    ('plus', None, (x,)), ('times', None, (x,)),
                    ('div', None, (y, B.Real(Fraction(2, 3)))),
                    ('div', None, (x, B.Int(2))),
                    ('toreal', None, (B.Int(5),)), ('toreal', None, (x,)),
                    ('pow', None, (B.Real(Fraction(2, 3)), B.Real(2))),
                    ('pow', None, (B.Int(3), B.Int(2))),
                    ('arrayval', B.INT, (B.Int(0), B.Int(1), B.Int(0),
                                         B.Int(2), B.Int(5))),
                    ('arrayval', B.INT, (B.Int(0), B.Int(2), B.Int(5))),
                    ('arrayval', B.INT, (x, B.Int(1), x, B.Int(2), B.Int(5))),
                    ]
            # duplicates (same structure, distinct python tuples)
            bps += [B.from_json(B.to_json(b)) for b in bps[:60]]
            check_orders(rep, bps, rng, 4 if quick else 8)
    if (not only or only == 'spellings') and rep.shard % 4 == 0:
        check_spellings(rep, rng)
    if (not only or only == 'types') and rep.shard % 4 == 1:
        check_types(rep, rng)
    until(0.75)
    if not only or only == 'arrays':
        check_array_get(rep, rng, 150 if quick else 20000)
    until(1.0)
    if (not only or only == 'normalize') and rep.shard == 3 % rep.nshards:
        check_normalize_sorts(rep)
    if not only or only == 'normalize':
        check_normalize(rep, rng, 40 if quick else 20000)
    nm = M.NODE_MONITOR
    rep.count('create_node_calls_shadowed', nm.created)
    seen = set()
    for (k, what, case) in nm.problems:
        if k.startswith('C04') or k.startswith('monitor'):
            if k not in seen:
                seen.add(k)
                rep.violation('C04/create_node/' + k, what, {'kind': k})


def replay(case, rep):
    run(rep)
