"""C08 - SMT-LIB import never misreads.

Scripts are generated as *text* (vf/textgen.py) with syntactic variants, read
by pySMT's parser and by the independent reader (vf/smtread.py); every
command argument pySMT returns is compared by value (reference evaluator)
with the independent reading.  Malformed variants must raise.  Constructs
that the parser handles on the current tree must stay accepted: rejections
are shrunk and their construct signature looked up in the committed
data/accept_baseline.json (the constructs the parser does not handle)."""
import json
import os
import random
import warnings
import zlib
from io import StringIO

from . import bp as B
from . import judge as J
from . import monitors as M
from . import common
from . import smtread as S
from . import textgen as T

PROP = 'C08'
BASELINE = os.path.join(common.VERIF, 'data', 'accept_baseline.json')

BOILER = set(['assert', 'declare-fun', 'declare-const', 'set-logic',
              'check-sat', 'declare-sort', 'exit', 'set-info', 'set-option'])
COMMANDS = set(['assert', 'declare-fun', 'declare-const', 'set-logic',
                'check-sat', 'declare-sort', 'exit', 'set-info',
                'set-option', 'define-fun', 'define-sort', 'push', 'pop',
                'reset', 'get-value', 'check-sat-assuming', 'get-model',
                'reset-assertions', 'model'])


# ---------------------------------------------------------------------------
# signatures of token trees
# ---------------------------------------------------------------------------
def signature(tree):
    acc = set()

    def go(x, head):
        if isinstance(x, list):
            if x and isinstance(x[0], str):
                h = x[0]
                if h in COMMANDS:
                    acc.add(h)
                elif h in ('_', 'as', '!', 'let', 'forall', 'exists',
                           'Array'):
                    acc.add(h)
                    if h == '_' and len(x) > 1 and isinstance(x[1], str):
                        acc.add('_' + (x[1] if not x[1].startswith('bv')
                                       or x[1][2:3].isalpha() else 'bvN'))
                else:
                    acc.add('%s/%d' % (h, len(x) - 1))
            for i, y in enumerate(x):
                go(y, i == 0)
        elif isinstance(x, str):
            if head:
                return
            if x[:2] == '#b':
                acc.add('#b')
            elif x[:2] == '#x':
                acc.add('#x')
            elif x[:1].isdigit():
                acc.add('decimal' if '.' in x else 'numeral')
            elif x.startswith(':'):
                acc.add(x)
            else:
                acc.add(x)
        elif x[0] == 'str':
            acc.add('string-literal')
            if '\\u' in x[1]:
                acc.add('string-unicode-escape')
        elif x[0] == 's':
            if not T.is_simple(x[1]):
                acc.add('quoted-symbol')
    go(tree, False)
    return acc


def sig_key(tree, limit=8):
    s = sorted(signature(tree) - BOILER)
    return '+'.join(s[:limit]) or 'core'


# ---------------------------------------------------------------------------
# shrinking of token trees
# ---------------------------------------------------------------------------
def tree_size(x):
    if isinstance(x, list):
        return 1 + sum(tree_size(y) for y in x)
    return 1


def _tpaths(x, path=()):
    if isinstance(x, list):
        for i, y in enumerate(x):
            yield path + (i,), y
            for z in _tpaths(y, path + (i,)):
                yield z


def _treplace(x, path, new, delete=False):
    i = path[0]
    if len(path) == 1:
        if delete:
            return x[:i] + x[i + 1:]
        return x[:i] + [new] + x[i + 1:]
    return x[:i] + [_treplace(x[i], path[1:], new, delete)] + x[i + 1:]


def shrink_tree(tree, fails, budget=1200):
    tries = [0]

    def F(t):
        if tries[0] >= budget:
            return False
        tries[0] += 1
        try:
            return fails(t)
        except Exception:
            return False

    # 0. ddmin over commands
    n = 2
    while len(tree) >= 2 and tries[0] < budget:
        size = max(1, len(tree) // n)
        removed = False
        for start in range(0, len(tree), size):
            nt = tree[:start] + tree[start + size:]
            if nt and F(nt):
                tree = nt
                n = max(n - 1, 2)
                removed = True
                break
        if not removed:
            if size == 1:
                break
            n = min(n * 2, len(tree))
    changed = True
    while changed and tries[0] < budget:
        changed = False
        # 1. drop whole commands (last first)
        for i in reversed(range(len(tree))):
            nt = tree[:i] + tree[i + 1:]
            if nt and F(nt):
                tree = nt
                changed = True
        if changed:
            continue
        # 2. hoist a child over its parent / delete an element
        cands = sorted(_tpaths(tree), key=lambda ps: -tree_size(ps[1]))
        for p, sub in cands:
            if len(p) < 2 or not isinstance(sub, list):
                continue
            done = False
            for j, ch in enumerate(sub):
                if j == 0 and isinstance(ch, str):
                    continue
                nt = _treplace(tree, p, ch)
                if F(nt):
                    tree = nt
                    done = True
                    break
            if done:
                changed = True
                break
        if changed:
            continue
        for p, sub in cands:
            if len(p) < 3:
                continue
            nt = _treplace(tree, p, None, delete=True)
            if F(nt):
                tree = nt
                changed = True
                break
        if changed:
            continue
        # 3. replace a term by a literal
        for p, sub in cands:
            if len(p) < 2 or not isinstance(sub, list):
                continue
            for lit in ('true', '0', '0.0', '#b0', ('str', '')):
                nt = _treplace(tree, p, lit)
                if F(nt):
                    tree = nt
                    changed = True
                    break
            if changed:
                break
    return tree


# ---------------------------------------------------------------------------
# the two readers
# ---------------------------------------------------------------------------
def read_m3(text):
    try:
        r = S.Reader(decode_unicode=True).run(text)
        return r, None
    except S.SmtError as e:
        return None, e
    except RecursionError:
        return None, S.SmtError('unsupported', 'recursion')


# scripts read by the same parser object *before* the script under test
# (names disjoint from the generator's): get_script() must start afresh
PRELUDES = {
    'real-logic': '(set-logic QF_LRA)(declare-fun zz_r () Real)'
                  '(assert (> zz_r 5))(check-sat)',
    'int-logic': '(set-logic QF_LIA)(declare-fun zz_i () Int)'
                 '(define-fun zz_f ((zz_a Int)) Int (+ zz_a 1))(push 1)'
                 '(assert (let ((zz_l 3)) (> (zz_f zz_i) zz_l)))',
    'bv-logic': '(set-logic QF_BV)(declare-fun zz_b () (_ BitVec 4))'
                '(assert (= zz_b #xf))(define-sort zz_S () (_ BitVec 4))',
    'fails-in-let': '(declare-fun zz_p () Bool)'
                    '(assert (let ((zz_x 5) (zz_y zz_p)) (and zz_y zz_x)))',
    'fails-in-quantifier': '(declare-fun zz_p () Bool)(assert (forall '
                           '((zz_q Int) (zz_w Bool)) (and zz_w zz_q)))',
    'fails-in-define': '(define-fun zz_g ((zz_a Int) (zz_c Bool)) Int '
                       '(+ zz_a zz_c))',
    'unbalanced': '(declare-fun zz_p () Bool)(assert (and zz_p',
    # names that the scripts of SAME_NAME_SCRIPTS declare again
    'same-names': '(declare-sort cl_S 0)(declare-sort cl_P 1)'
                  '(declare-fun cl_f (Int) Int)(declare-fun cl_g (Int Real) '
                  'Bool)(declare-fun cl_a () (Array Int Int))'
                  '(declare-fun cl_b () (_ BitVec 4))(declare-fun cl_s () '
                  'cl_S)(declare-fun cl_q () (cl_P Int))(declare-fun cl_x () '
                  'Int)(assert (= (cl_f cl_x) (select cl_a 0)))',
}

# scripts that declare names of the 'same-names' prelude, read by a parser
# of the environment that already has them: at the same sort the script
# reads as it says; at another sort pySMT may refuse (one sort per name and
# environment) but must not read the text at the old sort
SAME_NAME_SCRIPTS = [
    '(declare-fun cl_f (Int) Int)(assert (> (cl_f 1) 2))',
    '(declare-fun cl_f (Int) Real)(assert (> (cl_f 1) 2.5))',
    '(declare-fun cl_f (Real) Int)(assert (> (cl_f 1.5) 2))',
    '(declare-fun cl_f (Int Int) Int)(assert (> (cl_f 1 2) 2))',
    '(declare-fun cl_f () Int)(assert (> cl_f 2))',
    '(declare-fun cl_g (Real Int) Bool)(assert (cl_g 1.5 2))',
    '(declare-fun cl_g (Int Real) Bool)(assert (cl_g 2 1.5))',
    '(declare-fun cl_a () (Array Int Real))(assert (> (select cl_a 0) 0.5))',
    '(declare-fun cl_a () (Array Real Int))(assert (> (select cl_a 0.5) 0))',
    '(declare-fun cl_b () (_ BitVec 5))(assert (= cl_b #b10101))',
    '(declare-fun cl_b () (_ BitVec 4))(assert (= cl_b #b1010))',
    '(declare-sort cl_S 0)(declare-fun cl_s () cl_S)(declare-fun cl_t () '
    'cl_S)(assert (= cl_s cl_t))',
    '(declare-sort cl_T 0)(declare-fun cl_s () cl_T)(declare-fun cl_t () '
    'cl_T)(assert (= cl_s cl_t))',
    '(declare-sort cl_P 1)(declare-fun cl_q () (cl_P Real))(declare-fun '
    'cl_r () (cl_P Real))(assert (= cl_q cl_r))',
    '(declare-fun cl_x () Real)(assert (> cl_x 0.5))',
    '(declare-fun cl_x () Bool)(assert cl_x)',
    '(define-fun cl_f ((a Int)) Real (+ (to_real a) 0.5))(assert (> (cl_f 1) 1.0))',
    '(declare-fun cl_f (Int) Bool)(assert (cl_f 1))',
    # uses that are well-sorted at the old sort too
    '(declare-fun cl_f (Int) Real)(assert (= (cl_f 1) (cl_f 2)))',
    '(declare-fun cl_f (Int) Bool)(assert (= (cl_f 1) (cl_f 2)))',
    '(declare-fun cl_f (Int) (_ BitVec 3))(assert (distinct (cl_f 1) '
    '(cl_f 2)))',
    '(declare-fun cl_g (Int Real) Int)(assert (= (cl_g 1 2.5) (cl_g 2 0.5)))',
    '(declare-fun cl_a () (Array Int Real))(assert (= (select cl_a 0) '
    '(select cl_a 1)))',
    '(declare-fun cl_a () (Array Int Bool))(assert (= (select cl_a 0) '
    '(select cl_a 1)))',
    '(declare-fun cl_b () (_ BitVec 5))(assert (= cl_b (bvnot cl_b)))',
    '(declare-fun cl_b () (_ BitVec 1))(assert (= cl_b (bvneg cl_b)))',
    '(declare-sort cl_P 1)(declare-fun cl_q () (cl_P Bool))(assert '
    '(= cl_q cl_q))',
    '(declare-fun cl_x () Real)(assert (= cl_x cl_x))',
    '(declare-fun cl_x () (_ BitVec 2))(assert (distinct cl_x cl_x))',
]


def read_pysmt(text, prelude=None):
    from pysmt.smtlib.parser import SmtLibParser
    env = common.fresh_env()
    parser = SmtLibParser(env)
    if prelude is not None:
        try:
            with warnings.catch_warnings():
                warnings.simplefilter('ignore')
                parser.get_script(StringIO(PRELUDES[prelude]))
        except Exception:
            pass
    try:
        with warnings.catch_warnings():
            warnings.simplefilter('ignore')
            script = parser.get_script(StringIO(text))
        return script, None
    except RecursionError as e:
        return None, e
    except Exception as e:
        return None, e


def rename(b, m):
    if not m:
        return b
    op, pl, kids = b
    if op == 'sym' and pl[0] in m:
        return ('sym', (m[pl[0]], pl[1]), ())
    if op in ('forall', 'exists'):
        m2 = dict((k, v) for k, v in m.items()
                  if k not in [n for n, _ in pl])
        return (op, pl, tuple(rename(k, m2) for k in kids))
    return (op, pl, tuple(rename(k, m) for k in kids))


class Mismatch(Exception):
    def __init__(self, kind, what):
        Exception.__init__(self, what)
        self.kind = kind
        self.what = what


class Checker(object):
    def __init__(self, rep):
        self.rep = rep
        self.rng = random.Random(rep.seed * 15485863 % (2 ** 31) + rep.shard)
        self.shrinks_left = 30
        self.baseline, self.corner_accepted, self.unhandled_features = \
            load_baseline()
        self.prelude = None
        self.cache = {}

    # -- value comparison of one term ---------------------------------------
    def same_value(self, f, mb, what, ren=None):
        try:
            fb = B.describe(f)
        except B.Undescribable as e:
            raise Mismatch('undescribable', '%s: %s' % (what, e))
        if ren:
            fb = rename(fb, ren)
        try:
            t1, t2 = B.typeof(fb), B.typeof(mb)
        except B.IllTyped as e:
            raise Mismatch('ill-typed', '%s: pySMT returned an ill-typed '
                           'term: %s' % (what, e))
        if t1 != t2:
            raise Mismatch('sort', '%s: pySMT reads sort %r, the text has '
                           'sort %r' % (what, t1, t2))
        # deterministic per pair of terms: the same text always gets the
        # same verdict (shrinking and the lexical test rely on it)
        rng = random.Random(zlib.crc32(repr((fb, mb)).encode()))
        v, info = J.compare(fb, mb, rng, n_samples=12,
                            seed=self.rep.seed, step_budget=150000)
        if v == 'diff':
            raise Mismatch('value', '%s: pySMT reads %s, the text means %s; '
                           'under %s %s: %s vs %s' % (
                               what, B.show(fb, 160), B.show(mb, 160),
                               info['I'], info['D'], info['v1'], info['v2']))
        if v == 'eq':
            self.rep.count('terms_compared')
            self.rep.count('interpretations', info['n'])
        else:
            self.rep.count('terms_not_evaluable')

    # -- one script -----------------------------------------------------------
    def compare_scripts(self, script, rd):
        pc = [(c.name, c.args) for c in script.commands]
        mc = rd.commands
        if [n for n, _ in pc] != [n for n, _ in mc]:
            raise Mismatch('commands', 'pySMT returns the commands %s, the '
                           'text has %s' % ([n for n, _ in pc],
                                            [n for n, _ in mc]))
        for i, ((n, args), (_, pl)) in enumerate(zip(pc, mc)):
            what = 'command %d (%s)' % (i, n)
            if n == 'assert':
                self.same_value(args[0], pl, what)
            elif n in ('declare-fun', 'declare-const'):
                s = args[0]
                t = B.from_pytype(s.symbol_type())
                if s.symbol_name() != pl[0] or t != pl[1]:
                    raise Mismatch('declaration', '%s: pySMT declares %s : '
                                   '%r, the text %s : %r' % (
                                       what, s.symbol_name(), t, pl[0],
                                       pl[1]))
                self.rep.count('declarations_compared')
            elif n == 'define-fun':
                name, formal, rtype, body = args
                mname, mparams, mret, mbody = pl
                ft = [B.from_pytype(x.symbol_type()) for x in formal]
                if name != mname or ft != [t for _, t in mparams] or \
                        B.from_pytype(rtype) != mret:
                    raise Mismatch('definition', '%s: signature %s %r -> %r, '
                                   'the text has %s %r -> %r' % (
                                       what, name, ft, B.from_pytype(rtype),
                                       mname, [t for _, t in mparams], mret))
                ren = dict((x.symbol_name(), mn)
                           for x, (mn, _) in zip(formal, mparams))
                self.same_value(body, mbody, what + ' body', ren)
                self.rep.count('definitions_compared')
            elif n in ('push', 'pop'):
                if args[0] != pl:
                    raise Mismatch('levels', '%s: %r levels, text has %r' % (
                        what, args[0], pl))
            elif n in ('get-value', 'check-sat-assuming'):
                if len(args) != len(pl):
                    raise Mismatch('arguments', '%s: %d terms, text has %d'
                                   % (what, len(args), len(pl)))
                for j, (f, mb) in enumerate(zip(args, pl)):
                    self.same_value(f, mb, '%s term %d' % (what, j))
            elif n == 'set-logic':
                if args[0] is not None and args[0].name != pl:
                    raise Mismatch('logic', '%s: logic %s, text has %s' % (
                        what, args[0].name, pl))
            elif n == 'declare-sort':
                d = args[0]
                if (d.name, d.arity) != tuple(pl):
                    raise Mismatch('sort-declaration', '%s: %s/%d, text has '
                                   '%r' % (what, d.name, d.arity, pl))
        # the formula the script reports as finally asserted
        # (SmtLibScript.get_last_formula: assertion-stack semantics)
        live = rd.live_assertions()
        names = set(n for n, _ in mc)
        if 'reset' not in names and 'reset-assertions' not in names:
            try:
                with warnings.catch_warnings():
                    warnings.simplefilter('ignore')
                    last = script.get_last_formula()
            except Exception as e:
                raise Mismatch('last-formula-raises', 'get_last_formula() '
                               'raised %s: %s' % (common.exc_name(e),
                                                  str(e)[:120]))
            want = ('and', None, tuple(live)) if len(live) > 1 else (
                live[0] if live else B.Bool(True))
            self.same_value(last, want, 'get_last_formula()')
            self.rep.count('last_formulas_compared')
        self.rep.count('scripts_compared')
        self.rep.count('commands_compared', len(pc))

    def judge(self, tree, text=None, expect=None):
        """-> (kind, detail).  kind None: nothing wrong.  expect: for
        malformed variants, the set of M3 error kinds that confirm the
        variant is malformed as intended."""
        if text is None:
            text = T.render(tree)
        rd, merr = read_m3(text)
        if expect is not None:
            if merr is None or merr.kind not in expect:
                return 'outside', 'variant is not malformed as intended'
            script, perr = read_pysmt(text, self.prelude)
            if perr is None:
                return 'accepted-malformed', 'pySMT accepts text that is ' \
                    'not SMT-LIB (%s):\n%s' % (merr, text[:300])
            self.rep.count('malformed_rejected')
            return None, None
        if merr is not None:
            if merr.kind == 'unsupported':
                return 'outside', 'reader: %s' % merr
            return 'invalid', str(merr)
        script, perr = read_pysmt(text, self.prelude)
        if perr is not None:
            return 'rejected', '%s: %s' % (common.exc_name(perr),
                                           str(perr)[:200])
        try:
            self.compare_scripts(script, rd)
        except Mismatch as e:
            return 'misread:' + e.kind, e.what
        return None, None

    # -- check & classify -----------------------------------------------------
    def check(self, tree, j, feats=(), style=None, expect=None, cls=None,
              wide=False, prelude=None):
        self.prelude = prelude
        try:
            self.check_(tree, j, feats, style, expect, cls, wide)
            if prelude is not None:
                self.rep.count('parser_reuse_cases')
        finally:
            self.prelude = None

    def check_(self, tree, j, feats, style, expect, cls, wide):
        rep = self.rep
        text = None
        if style:
            text = T.render(tree, self.rng, style)
        kind, detail = self.judge(tree, text, expect)
        rep.case(key=hash(text or T.render(tree)),
                 sample=(text or T.render(tree))[:300] if j % 997 == 0
                 else None)
        for f in feats:
            rep.count('feat_' + f)
        if kind is None:
            return
        if kind == 'outside':
            rep.count('outside_reader_fragment')
            return
        if kind == 'rejected' and wide:
            rep.count('rejected_scripts')
            rep.count('rejected_wide_mode')
            return
        if kind == 'invalid':
            rep.count('generator_invalid')
            if len(rep.notes) < 3:
                rep.notes.append('generator produced invalid text (%s): %s'
                                 % (detail, T.render(tree)[:200]))
            return
        if style and text is not None:
            # does the canonical rendering fail the same way?  If not the
            # lexical layer (white space, comments, quoting) is the cause.
            k2, _ = self.judge(tree, None, expect)
            if k2 != kind and self.readings_differ(text, T.render(tree)):
                key = '%s/%s/lexical' % (PROP, kind)
                rep.violation(key, '%s; only with this rendering:\n%s' % (
                    detail, text[:400]), {'text': text, 'expect':
                                          sorted(expect) if expect else None})
                return
        if expect is not None:
            key = '%s/accepted-malformed/%s' % (PROP, cls)
            rep.violation(key, detail, {'tree': tree_json(tree),
                                        'expect': sorted(expect)})
            return
        # shrink
        pre = (kind, sig_key(tree, 4))
        if pre in self.cache:
            key = self.cache[pre]
            if key is None:
                return
            rep.violation(key, detail, None)
            return
        m = tree
        if self.shrinks_left > 0:
            self.shrinks_left -= 1

            def fails(t):
                return self.judge(t)[0] == kind
            m = shrink_tree(tree, fails)
        else:
            rep.count('violations_not_shrunk')
        k3, d3 = self.judge(m)
        if k3 != kind:
            m, d3 = tree, detail
        if self.prelude is not None:
            pre_, self.prelude = self.prelude, None
            try:
                alone = self.judge(m)[0]
            finally:
                self.prelude = pre_
            if alone != kind:
                key = '%s/%s/parser-reuse:%s' % (PROP, kind, pre_)
                self.cache[pre] = key
                rep.violation(key, 'only when the same parser object has '
                              'read the script %r before: %s\nminimal '
                              'script:\n%s' % (PRELUDES[pre_], d3,
                                               T.render(m)),
                              {'tree': tree_json(m), 'prelude': pre_})
                return
        if kind == 'rejected':
            rep.count('rejected_scripts')
            sig = signature(m) - BOILER
            if self.covered(sig):
                rep.count('rejected_known_unhandled')
                self.cache[pre] = None
                return
            key = '%s/no-longer-accepted/%s' % (PROP, sig_key(m))
        else:
            key = '%s/%s/%s' % (PROP, kind, classify(m))
        self.cache[pre] = key
        rep.violation(key, '%s\nminimal script:\n%s' % (d3, T.render(m)),
                      {'tree': tree_json(m)})

    def readings_differ(self, t1, t2):
        """Do the two renderings of one token tree read differently (by
        either reader)?"""
        def summary(t):
            rd, me = read_m3(t)
            sc, pe = read_pysmt(t)
            a = repr(rd.commands) if me is None else 'err:' + me.kind
            if pe is not None:
                b = 'err:' + common.exc_name(pe)
            else:
                b = []
                for c in sc.commands:
                    row = [c.name]
                    for x in c.args:
                        try:
                            row.append(repr(B.describe(x)))
                        except Exception:
                            row.append(str(x))
                    b.append(row)
            return a, repr(b)
        return summary(t1) != summary(t2)

    def covered(self, sig):
        for s in self.baseline:
            if s <= sig:
                return True
        return False


MECHANISMS = ('string-unicode-escape', 'quantified-variable-captures-global')


def classify(tree):
    """Mechanism class of a minimal misread script."""
    s = signature(tree) - BOILER
    if 'string-unicode-escape' in s:
        return 'string-unicode-escape'
    if ('forall' in s or 'exists' in s) and ('let' in s or
                                             'define-fun' in s):
        declared = set()
        for c in tree:
            if c and c[0] in ('declare-fun', 'declare-const') and \
                    isinstance(c[1], tuple):
                declared.add(c[1][1])
        bound = set()
        twice = set()
        for p, x in _tpaths(tree):
            if isinstance(x, list) and len(x) == 3 and \
                    x[0] in ('forall', 'exists') and isinstance(x[1], list):
                for sv in x[1]:
                    if isinstance(sv, list) and sv and \
                            isinstance(sv[0], tuple):
                        if sv[0][1] in bound:
                            twice.add(sv[0][1])
                        bound.add(sv[0][1])
        # (the same mechanism: the bound variable is the pySMT symbol of
        # that name, be it a declared symbol or an enclosing quantifier's)
        if declared & bound or twice:
            return 'quantified-variable-captures-global'
    return '+'.join(sorted(s)[:8]) or 'core'


def load_baseline():
    if not os.path.exists(BASELINE):
        raise common.Inconclusive('data/accept_baseline.json is missing')
    with open(BASELINE) as f:
        d = json.load(f)
    return ([frozenset(x) for x in d['unhandled_constructs']],
            set(d.get('accepted_corners', ())),
            list(d['unhandled_features']))


def tree_json(t):
    if isinstance(t, list):
        return [tree_json(x) for x in t]
    if isinstance(t, tuple):
        return {'t': t[0], 'v': t[1]}
    return t


def tree_from_json(j):
    if isinstance(j, list):
        return [tree_from_json(x) for x in j]
    if isinstance(j, dict):
        return (j['t'], j['v'])
    return j


# ---------------------------------------------------------------------------
# malformed variants
# ---------------------------------------------------------------------------
def malformed_variants(rng, tree):
    """Yield (class, expected reader error kinds, tree-or-text)."""
    asserts = [i for i, c in enumerate(tree) if c and c[0] == 'assert']
    if not asserts:
        return
    i = rng.choice(asserts)
    # undeclared identifier: replace a symbol occurrence in an assertion
    syms = [p for p, x in _tpaths(tree[i]) if isinstance(x, tuple)
            and x[0] == 's' and len(p) > 1 and p[-1] != 0]
    if syms:
        p = rng.choice(syms)
        yield 'undeclared-identifier', {'undeclared'}, \
            tree[:i] + [_treplace(tree[i], p, ('s', 'never_declared_%d' %
                                               rng.randrange(100)))] + \
            tree[i + 1:]
    yield 'unknown-command', {'unknown-command'}, \
        tree[:i] + [['frobnicate', 'true']] + tree[i:]
    # wrong arity of a fixed-arity operator
    fixed = {'not': 1, 'ite': 3, 'select': 2, 'store': 3, 'bvult': 2,
             'bvnot': 1, 'str.len': 1, 'bvslt': 2, 'bvudiv': 2, 'bvsge': 2,
             'str.at': 2, 'bvneg': 1, 'to_real': 1, 'bvcomp': 2}
    apps = [(p, x) for p, x in _tpaths(tree[i]) if isinstance(x, list)
            and x and isinstance(x[0], str) and x[0] in fixed]
    if apps:
        p, x = rng.choice(apps)
        if rng.random() < 0.5 and len(x) > 2:
            nx = x[:-1]
        else:
            nx = x + [x[-1]]
        yield 'wrong-arity', {'ill-sorted', 'syntax'}, \
            tree[:i] + [_treplace(tree[i], p, nx)] + tree[i + 1:]
    # indexed operators with an index out of range
    idxs = [(p, x) for p, x in _tpaths(tree[i]) if isinstance(x, list)
            and len(x) == 4 and x[0] == '_' and x[1] == 'extract']
    if idxs:
        p, x = rng.choice(idxs)
        for bump in (1, 2, 3, 4, 5, 6, 7, 8):
            # (one of these makes the upper index equal to the width)
            nx = ['_', 'extract', str(int(x[2]) + bump), x[3]]
            yield 'extract-out-of-range', {'ill-sorted'}, \
                tree[:i] + [_treplace(tree[i], p, nx)] + tree[i + 1:]
    # ill-sorted application: swap in a term of another sort
    # (a numeral in an arithmetic position is not in the list: the parser
    # documents that it reads integer constants as reals where needed)
    lits = [('true', 'Bool'), ('#b101', 'bv3'), (('str', 'k'), 'String')]
    apps = [(p, x) for p, x in _tpaths(tree[i]) if isinstance(x, list)
            and len(x) > 1 and isinstance(x[0], str)
            and x[0] in ('and', 'or', 'not', '+', '*', '<', '<=', 'bvadd',
                         'bvand', 'bvult', 'str.++', 'str.len', '=>',
                         'select', 'store', 'bvmul', 'div', 'concat')]
    if apps:
        p, x = rng.choice(apps)
        j = rng.randrange(1, len(x))
        lit = rng.choice(lits)[0]
        yield 'ill-sorted', {'ill-sorted'}, \
            tree[:i] + [_treplace(tree[i], p + (j,), lit)] + tree[i + 1:]


def unbalanced_texts(rng, text):
    opens = [k for k, c in enumerate(text) if c == '(']
    closes = [k for k, c in enumerate(text) if c == ')']
    if closes:
        k = closes[-1]
        yield 'unbalanced-missing-close', text[:k] + text[k + 1:]
        k = rng.choice(closes)
        yield 'unbalanced-extra-close', text[:k] + ')' + text[k:]
    if opens:
        k = rng.choice(opens)
        yield 'unbalanced-extra-open', text[:k] + '(' + text[k:]


# ---------------------------------------------------------------------------
# hand-written corner scripts (each a list of commands as text)
# ---------------------------------------------------------------------------
CORNERS = [
    # simultaneous let
    '(declare-fun x () Int)(declare-fun y () Int)'
    '(assert (let ((x y) (y x)) (< x y)))',
    '(declare-fun x () Int)(assert (let ((x 1)) (let ((x (+ x 1)) (y x)) '
    '(= y 1))))',
    '(declare-fun x () Int)(assert (let ((y (+ x 1))) (let ((x 5) (z y)) '
    '(= z (+ x 1)))))',
    # definition vs binders
    '(define-fun f () Int 1)(assert (let ((f 2)) (= f 2)))',
    '(define-fun f () Int 1)(assert (forall ((f Int)) (= f 1)))',
    '(define-fun f ((a Int)) Int (+ a 1))(declare-fun a () Int)'
    '(assert (= (f 3) (+ a 1)))',
    '(declare-fun a () Int)(define-fun f ((a Int)) Int (+ a 1))'
    '(assert (= (f 3) (+ a 1)))',
    '(define-fun f ((a Int) (b Int)) Int (- a b))(declare-fun a () Int)'
    '(declare-fun b () Int)(assert (= (f b a) 0))',
    '(define-fun g () Bool true)(define-fun f ((g Int)) Int g)'
    '(assert (= (f 3) 3))',
    # capture by quantifiers
    '(declare-fun x () Int)(define-fun m () Int x)'
    '(assert (forall ((x Int)) (= m x)))',
    '(declare-fun x () Int)(assert (let ((y x)) (exists ((x Int)) '
    '(distinct y x))))',
    '(declare-fun x () Int)(define-fun m ((a Int)) Bool (= a x))'
    '(assert (forall ((x Int)) (m x)))',
    '(declare-fun x () Int)(assert (forall ((x Int)) (exists ((x Int)) '
    '(> x 0))))',
    '(declare-fun x () Bool)(assert (forall ((x Int)) (> x 0)))'
    '(assert x)',
    '(declare-fun x () Int)(assert (and (forall ((x Int)) (>= (* x x) 0)) '
    '(> x 0)))',
    # numerals by logic
    '(set-logic QF_LRA)(declare-fun r () Real)(assert (= r 5))',
    '(set-logic QF_LRA)(declare-fun r () Real)(assert (= (/ 1 3) r))',
    '(set-logic QF_LIA)(declare-fun i () Int)(assert (= i 5))',
    '(set-logic QF_UFLIRA)(declare-fun i () Int)(declare-fun r () Real)'
    '(assert (= (to_real i) (+ r 5.0)))',
    '(declare-fun r () Real)(assert (= r (- 2.50)))',
    '(declare-fun r () Real)(assert (= r (/ (- 1) 3)))',
    '(declare-fun r () Real)(assert (= r (- (/ 1 3))))',
    # bit-vector notations
    '(declare-fun b () (_ BitVec 8))(assert (= b #xfF))',
    '(declare-fun b () (_ BitVec 8))(assert (= b #b00001111))',
    '(declare-fun b () (_ BitVec 8))(assert (= b (_ bv255 8)))',
    '(declare-fun b () (_ BitVec 8))(assert (= ((_ extract 7 4) b) #xA))',
    '(declare-fun b () (_ BitVec 8))(assert (= ((_ extract 3 3) b) #b1))',
    '(declare-fun b () (_ BitVec 4))(assert (= ((_ zero_extend 4) b) #x0f))',
    '(declare-fun b () (_ BitVec 4))(assert (= ((_ sign_extend 4) b) #xff))',
    '(declare-fun b () (_ BitVec 4))(assert (= ((_ rotate_left 1) b) #x3))',
    '(declare-fun b () (_ BitVec 4))(assert (= ((_ rotate_right 5) b) #x3))',
    '(declare-fun b () (_ BitVec 4))(assert (= ((_ repeat 2) b) #x33))',
    '(declare-fun b () (_ BitVec 4))(declare-fun c () (_ BitVec 4))'
    '(assert (and (bvsge b c) (bvsgt b c) (bvuge b c) (bvugt c b)))',
    '(declare-fun b () (_ BitVec 4))(declare-fun c () (_ BitVec 4))'
    '(assert (= (bvsmod b c) (bvsrem b c)))',
    '(declare-fun b () (_ BitVec 4))(declare-fun c () (_ BitVec 4))'
    '(assert (= (bvnand b c) (bvnor b c) ))',
    '(declare-fun b () (_ BitVec 4))(declare-fun c () (_ BitVec 4))'
    '(assert (= (bvxnor b c) (bvcomp b c)))',
    '(declare-fun b () (_ BitVec 4))(declare-fun c () (_ BitVec 2))'
    '(assert (= (concat c b c) #b110011))',
    # arrays
    '(declare-fun a () (Array Int Int))'
    '(assert (= a ((as const (Array Int Int)) 0)))',
    '(declare-fun a () (Array Int Int))'
    '(assert (= (select (store a 1 2) 1) 2))',
    # chains
    '(declare-fun x () Int)(declare-fun y () Int)(declare-fun z () Int)'
    '(assert (< x y z))',
    '(declare-fun x () Int)(declare-fun y () Int)(declare-fun z () Int)'
    '(assert (= x y z))',
    '(declare-fun x () Int)(declare-fun y () Int)(declare-fun z () Int)'
    '(assert (distinct x y z))',
    '(declare-fun x () Int)(declare-fun y () Int)(declare-fun z () Int)'
    '(assert (= (- x y z) 0))',
    '(declare-fun p () Bool)(declare-fun q () Bool)(declare-fun r () Bool)'
    '(assert (=> p q r))',
    '(declare-fun p () Bool)(declare-fun q () Bool)(declare-fun r () Bool)'
    '(assert (xor p q r))',
    '(declare-fun p () Bool)(declare-fun q () Bool)(assert (= p q))',
    '(declare-fun p () Bool)(declare-fun q () Bool)(assert (distinct p q))',
    '(declare-fun x () Int)(assert (= (abs x) (mod x 3)))',
    '(declare-fun x () Int)(assert (= (div x 3) (div x (- 3))))',
    # strings
    '(declare-fun s () String)(assert (= s "a""b"))',
    '(declare-fun s () String)(assert (= (str.len "\\u{41}") 1))',
    '(declare-fun s () String)(assert (= (str.len "\\x41") 4))',
    '(declare-fun s () String)(assert (= (str.++ s "a" s) s))',
    '(declare-fun s () String)(assert (= (str.at s 0) (str.substr s 0 1)))',
    # annotations, quoting
    '(declare-fun p () Bool)(assert (! p :named n1))(assert (! (not p) '
    ':pattern (p) :named n2))',
    '(declare-fun |x| () Int)(assert (= x 1))',
    '(declare-fun x () Int)(assert (= |x| 1))',
    '(declare-fun |x y| () Int)(assert (= |x y| 1))',
    '(declare-fun |a;b| () Int)(assert (= |a;b| 1)) ; comment (\n',
    # push / pop / redefine
    '(declare-fun x () Int)(push 1)(define-fun f ((a Int)) Int (+ a 1))'
    '(assert (= (f x) 3))(pop 1)(push 1)(define-fun f ((a Int)) Int '
    '(* a 2))(assert (= (f x) 3))',
    '(push)(declare-fun x () Int)(assert (> x 0))(pop)'
    '(declare-fun x () Int)(assert (< x 0))',
    '(declare-fun x () Int)(assert (> x 0))(push 0)(assert (> x 1))(pop 0)'
    '(assert (> x 2))(push 2)(assert (> x 3))(pop 1)(pop 0)(assert (> x 4))',
    '(declare-sort S 0)(declare-fun c () S)(declare-fun d () S)'
    '(assert (distinct c d))',
    '(define-sort MyInt () Int)(declare-fun x () MyInt)(assert (> x 0))',
    '(define-sort A (X) (Array Int X))(declare-fun a () (A Bool))'
    '(assert (select a 0))',
    '(declare-fun f (Int Bool) Int)(assert (= (f 1 true) 2))',
    '(declare-const c Bool)(assert c)(check-sat-assuming (c (not c)))'
    '(get-value (c (not c)))',
]

CORNER_MALFORMED = [
    ('undeclared-identifier', {'undeclared'},
     '(declare-fun s () String)(assert (= s nowhere))'),
    ('undeclared-identifier', {'undeclared'},
     '(assert (= nowhere1 nowhere2))'),
    ('undeclared-identifier', {'undeclared'},
     '(assert (= (str.len nowhere) 7))'),
    ('undeclared-identifier', {'undeclared'},
     '(declare-fun x () Int)(assert (> x -5))'),
    ('undeclared-identifier', {'undeclared', 'lexical'},
     '(declare-fun x () Real)(assert (> x 1e2))'),
    ('undeclared-identifier', {'undeclared'},
     '(push 1)(declare-fun x () Int)(pop 1)(assert (> x 0))'),
    ('unknown-command', {'unknown-command'}, '(assertt true)'),
    ('wrong-arity', {'ill-sorted', 'syntax'},
     '(declare-fun p () Bool)(assert (not p p))'),
    ('wrong-arity', {'ill-sorted', 'syntax'},
     '(declare-fun p () Bool)(assert (ite p p))'),
    ('ill-sorted', {'ill-sorted'},
     '(declare-fun p () Bool)(assert (and p 1))'),
    ('ill-sorted', {'ill-sorted'},
     '(declare-fun b () (_ BitVec 4))(assert (= (bvadd b #b1) b))'),
    ('ill-sorted', {'ill-sorted'},
     '(declare-fun x () Int)(assert x)'),
    ('ill-sorted', {'ill-sorted'},
     '(declare-fun f (Int) Int)(assert (= (f true) 1))'),
    ('ill-sorted', {'ill-sorted'},
     '(define-fun f ((a Int)) Bool a)'),
    ('extract-out-of-range', {'ill-sorted'},
     '(declare-fun b () (_ BitVec 8))(assert (= ((_ extract 8 1) b) b))'),
    ('extract-out-of-range', {'ill-sorted'},
     '(declare-fun b () (_ BitVec 8))(assert (= ((_ extract 8 8) b) #b1))'),
    ('extract-out-of-range', {'ill-sorted'},
     '(declare-fun b () (_ BitVec 8))(assert (= ((_ extract 2 3) b) #b1))'),
    ('extract-out-of-range', {'ill-sorted'},
     '(declare-fun b () (_ BitVec 4))(assert (= ((_ extract 4 2) b) #b101))'),
    ('unbalanced', {'syntax'}, '(declare-fun x () Int)(assert (> x 0)'),
    ('unbalanced', {'syntax'}, '(declare-fun x () Int))(assert (> x 0))'),
    ('unbalanced', {'syntax', 'lexical'}, '(assert (= "abc "abc"))'),
]


def _define_fun_sort_matrix():
    # a definition whose body does not have the declared result sort; the
    # body is a declared symbol, a parameter or a compound term (never a
    # ground integer term under Real: the parser documents that leniency)
    sorts = [('Int', '(+ zd_Int 1)', '(* 2 zp)'),
             ('Real', '(+ zd_Real 1.5)', '(- zp)'),
             ('Bool', '(not zd_Bool)', '(and zp zp)'),
             ('(_ BitVec 4)', '(bvadd zd_BV zd_BV)', '(bvnot zp)'),
             ('String', '(str.++ zd_String zd_String)', '(str.++ zp zp)'),
             ('(Array Int Int)', '(store zd_Arr 0 1)', '(store zp 1 2)')]

    def nm(srt):
        return {'(_ BitVec 4)': 'BV', '(Array Int Int)': 'Arr'}.get(srt, srt)
    out = []
    for (rs, _, _) in sorts:
        for (bs, comp, pcomp) in sorts:
            if rs == bs:
                continue
            d = '(declare-fun zd_%s () %s)' % (nm(bs), bs)
            out.append(d + '(define-fun zf () %s zd_%s)' % (rs, nm(bs)))
            out.append(d + '(define-fun zf () %s %s)' % (rs, comp))
            out.append('(define-fun zf ((zp %s)) %s zp)' % (bs, rs))
            out.append('(define-fun zf ((zp %s)) %s %s)' % (bs, rs, pcomp))
            out.append(d + '(define-fun zf ((zq Bool)) %s (ite zq zd_%s '
                       'zd_%s))' % (rs, nm(bs), nm(bs)))
    return [('define-fun-result-sort', {'ill-sorted'}, t) for t in out]


CORNER_MALFORMED += _define_fun_sort_matrix()


# two scripts read lazily, command by command, in turns, each by a parser of
# its own (get_command_generator): each must read as if it were alone
INTERLEAVED = [
    ('(declare-fun x () Int)(define-fun f ((a Int)) Int (+ a 1))'
     '(define-fun k () Int 7)(assert (= (f 3) k))(assert (> (f x) k))',
     '(declare-fun x () Int)(define-fun f ((a Int)) Int (* a 5))'
     '(define-fun k () Int 9)(assert (= (f 2) k))(assert (< (f x) k))'),
    ('(declare-fun p () Bool)(define-fun g ((a Bool)) Bool (not a))'
     '(assert (g p))(push 1)(define-fun h () Bool (g (g p)))(assert h)(pop 1)'
     '(assert (g (g p)))',
     '(declare-fun p () Bool)(define-fun g ((a Bool)) Bool (and a p))'
     '(assert (g p))(define-fun h () Bool false)(assert (or h (g true)))'),
    ('(define-sort W () (_ BitVec 4))(declare-fun b () W)'
     '(define-fun m ((v W)) W (bvadd v #x1))(assert (= (m b) #x3))',
     '(define-sort W () (_ BitVec 8))(declare-fun c () W)'
     '(define-fun m ((v W)) W (bvnot v))(assert (= (m c) #x03))'),
    ('(declare-fun x () Int)(assert (let ((y (+ x 1))) (> y 2)))'
     '(assert (! (> x 0) :named nx))(assert (> x 5))',
     '(declare-fun z () Int)(assert (let ((y (* z 3))) (< y 2)))'
     '(assert (! (< z 0) :named nx))(assert (< z 5))'),
]


def interleaved_cases(rep, ck):
    from pysmt.smtlib.parser import SmtLibParser
    from pysmt.smtlib.script import SmtLibScript
    for i, (ta, tb) in enumerate(INTERLEAVED):
        for order in (0, 1):
            if (2 * i + order) % rep.nshards != rep.shard:
                continue
            texts = (ta, tb) if order == 0 else (tb, ta)
            env = common.fresh_env()
            other = common_env_twin()
            rep.case(key=('interleaved', i, order))
            rep.count('interleaved_script_pairs')
            try:
                with warnings.catch_warnings():
                    warnings.simplefilter('ignore')
                    gens = [SmtLibParser(env).get_command_generator(
                        StringIO(texts[0])),
                        SmtLibParser(other).get_command_generator(
                            StringIO(texts[1]))]
                    got = [[], []]
                    live = [0, 1]
                    while live:
                        for w in list(live):
                            try:
                                got[w].append(next(gens[w]))
                            except StopIteration:
                                live.remove(w)
            except Exception as e:
                rep.violation('%s/rejected/interleaved-parsers' % PROP,
                              'two scripts read in turns by two parsers: %r\n'
                              '%s\n%s' % (e, texts[0], texts[1]),
                              {'texts': list(texts)})
                continue
            for w in (0, 1):
                rd, merr = read_m3(texts[w])
                if merr is not None:
                    rep.notes.append('interleaved text outside: %s' % merr)
                    continue
                sc = SmtLibScript()
                for c in got[w]:
                    sc.add_command(c)
                try:
                    ck.compare_scripts(sc, rd)
                except Mismatch as e:
                    rep.violation(
                        '%s/misread:%s/interleaved-parsers' % (PROP, e.kind),
                        'read in turns with another script by another '
                        'parser object: %s\n%s' % (e.what, texts[w]),
                        {'texts': list(texts), 'which': w})


def common_env_twin():
    from pysmt.environment import Environment
    return Environment()


def text_to_tree(text):
    """Token tree of a text via the independent tokenizer."""
    def conv(x):
        if isinstance(x, list):
            return [conv(y) for y in x]
        if x.kind == 'sym':
            if x.extra or x.val not in S.RESERVED | S.CORE_SYMBOLS | set(
                    ['const', 'extract', 'zero_extend', 'sign_extend',
                     'rotate_left', 'rotate_right', 'repeat', 'model', 'abs',
                     'mod', 'bvsmod', 'bvnand', 'bvnor', 'bvxnor']) \
                    and not (x.val.startswith('bv') and
                             x.val[2:].isdigit()):
                return ('s', x.val)
            return x.val
        if x.kind == 'str':
            return ('str', x.val)
        if x.kind == 'num':
            return str(x.val)
        if x.kind == 'dec':
            return None
        if x.kind == 'kw':
            return x.val
        return None
    return conv(S.parse_sexprs(S.tokenize(text)))


# ---------------------------------------------------------------------------
# models
# ---------------------------------------------------------------------------
def check_model(ck, rng, j):
    """(model (define-fun ...)*) text: parse_model vs independent reading."""
    from pysmt.smtlib.parser import SmtLibParser
    rep = ck.rep
    g = T.TextGen(rng, theme=rng.choice(['int', 'mixed', 'bv', 'real',
                                         'string']), depth=2,
                  features={'off': ['quantifier', 'let', 'push-pop',
                                    'quoted-hostile']})
    g.logic = None
    g.numeral_real = False
    g.types = [t for t in g.types if t[0] not in ('Array', 'U')]
    defs = []
    for _ in range(rng.choice([1, 2, 3, 4])):
        g.consts = {}
        g.funs = {}
        saved = dict(g.macros)
        g.macros = {}
        g.cmds = []
        g.define_fun()
        g.macros = saved
        c = g.cmds[-1]
        name = c[1][1]
        if name in saved:
            continue
        g.macros[name] = None
        defs.append(c)
    wrapper = rng.choice(['model', None])
    tree = [([wrapper] if wrapper else []) + defs]
    text = T.render(tree)
    rep.case(key=hash(text), sample=text[:200] if j % 499 == 0 else None)
    r = S.Reader(decode_unicode=True)
    try:
        for d in S.parse_sexprs(S.tokenize(T.render(defs))):
            r.command(d)
    except S.SmtError as e:
        rep.count('generator_invalid' if e.kind != 'unsupported'
                  else 'outside_reader_fragment')
        return
    env = common.fresh_env()
    try:
        with warnings.catch_warnings():
            warnings.simplefilter('ignore')
            model, interp = SmtLibParser(env).parse_model(StringIO(text))
    except Exception as e:
        rep.count('model_rejected')
        rep.count('model_rejected_' + common.exc_name(e))
        return
    try:
        got = {}
        for k, v in model.items():
            got[k.symbol_name()] = ((), v, B.from_pytype(k.symbol_type()))
        for k, fi in interp.items():
            got[k.symbol_name()] = (tuple(fi.formal_params), fi.function_body,
                                    B.from_pytype(k.symbol_type()))
        want = dict((pl[0], pl) for n, pl in r.commands if n == 'define-fun')
        if set(got) != set(want):
            raise Mismatch('model-names', 'parse_model returns %s, text '
                           'defines %s' % (sorted(got), sorted(want)))
        for n, (formal, body, ty) in got.items():
            _, mparams, mret, mbody = want[n]
            mty = B.FUN(mret, [t for _, t in mparams]) if mparams else mret
            if ty != mty:
                raise Mismatch('model-sort', '%s : %r, text has %r' % (
                    n, ty, mty))
            ren = dict((x.symbol_name(), mn)
                       for x, (mn, _) in zip(formal, mparams))
            ck.same_value(body, mbody, 'model value of %s' % n, ren)
        rep.count('models_compared')
    except Mismatch as e:
        cls = classify(tree)
        rep.violation('%s/misread:%s/%s' % (PROP, e.kind, cls if cls in
                                            MECHANISMS else 'model:' + cls),
                      '%s\n%s' % (e.what, text), {'text': text,
                                                  'model': True})


# ---------------------------------------------------------------------------
def run(rep):
    M.NODE_MONITOR.install()
    ck = Checker(rep)
    rng = ck.rng
    quick = rep.tier == 'quick'
    j = 0
    # 1. corner scripts
    for i, text in enumerate(CORNERS):
        if i % rep.nshards != rep.shard:
            continue
        kind, detail = ck.judge(None, text)
        rep.case(key=hash(text))
        rep.count('corner_scripts')
        if kind in ('invalid', 'outside'):
            rep.notes.append('corner outside: %s: %s' % (detail, text))
        elif kind == 'rejected':
            rep.count('rejected_scripts')
            rep.count('corner_rejected')
            if text in ck.corner_accepted:
                rep.violation('%s/no-longer-accepted/corner:%s' % (
                    PROP, corner_label(text)), detail, {'text': text})
        elif kind:
            label = 'corner:' + corner_label(text)
            tree = text_to_tree(text)
            if not any_none(tree) and classify(tree) in MECHANISMS:
                label = classify(tree)
            rep.violation('%s/%s/%s' % (PROP, kind, label),
                          detail + '\n' + text, {'text': text})
    interleaved_cases(rep, ck)
    for i, text in enumerate(SAME_NAME_SCRIPTS):
        if i % rep.nshards != rep.shard:
            continue
        rep.case(key=hash(('same-names', text)))
        ck.prelude = 'same-names'
        try:
            kind, detail = ck.judge(None, text)
        finally:
            ck.prelude = None
        rep.count('same_name_scripts')
        if kind == 'rejected':
            rep.count('same_name_scripts_refused')
        elif kind == 'outside':
            rep.notes.append('same-name script outside: %s' % detail)
        elif kind:
            rep.violation('%s/%s/same-name-after-other-script' % (PROP, kind),
                          'after a script that declares the names at (other) '
                          'sorts in the same environment: %s\n%s' % (
                              detail, text), {'text': text,
                                              'prelude': 'same-names'})
    for i, (cls, expect, text) in enumerate(CORNER_MALFORMED):
        if i % rep.nshards != rep.shard:
            continue
        rep.case(key=hash(text))
        rep.count('malformed_variants')
        kind, detail = ck.judge(None, text, expect)
        if kind == 'outside':
            rep.notes.append('malformed corner not malformed: ' + text)
        elif kind:
            rep.violation('%s/accepted-malformed/%s' % (PROP, mal_class(
                cls, text)), detail, {'text': text, 'expect': sorted(expect)})
    # 2. generated scripts
    n = 1500 if quick else 60000
    k = 0
    while k < n and not rep.out_of_time():
        depth = [2, 3, 3, 4][k % 4]
        # two scripts in three only use constructs the parser handles on
        # the current tree: there every rejection is a finding
        wide = (k % 3 == 2)
        g = T.TextGen(rng, depth=depth, features=None if wide else
                      {'off': ck.unhandled_features})
        rep.count('scripts_wide' if wide else 'scripts_handled_constructs')
        try:
            tree = g.script(n_cmds=rng.choice([4, 8, 12]))
        except T.NoLiteral:
            k += 1
            continue
        style = None
        if k % 3 == 1:
            # (a comment inside an S-expression attribute value is a
            # construct the tokenizer does not handle: wide mode only)
            style = {'space': True, 'quote': True, 'comment': k % 2 == 0 and
                     (wide or 'attribute-sexpr' not in g.feats)}
        prelude = None
        if k % 5 == 3:
            prelude = sorted(PRELUDES)[(k // 5) % len(PRELUDES)]
        ck.check(tree, j, feats=sorted(g.feats) + ['theme_' + g.theme],
                 style=style, wide=wide, prelude=prelude)
        j += 1
        if k % 4 == 0:
            for cls, expect, mt in malformed_variants(rng, tree):
                rep.count('malformed_variants')
                rep.count('malformed_' + cls)
                ck.check(mt, j, expect=expect, cls=cls)
                j += 1
        if k % 8 == 0:
            text = T.render(tree)
            for cls, mt in unbalanced_texts(rng, text):
                rep.count('malformed_variants')
                rep.count('malformed_' + cls)
                kind, detail = ck.judge(None, mt, {'syntax', 'lexical'})
                rep.case(key=hash(mt))
                if kind and kind != 'outside':
                    rep.violation('%s/accepted-malformed/%s' % (PROP, cls),
                                  detail, {'text': mt, 'expect':
                                           ['syntax', 'lexical']})
        if k % 5 == 0:
            check_model(ck, rng, j)
        k += 1
    if k < n:
        rep.notes.append('random workload truncated at %d of %d' % (k, n))


def corner_label(text):
    i = text.rfind('(assert')
    return text[i if i >= 0 else 0:][:70]


def mal_class(cls, text):
    if cls == 'undeclared-identifier':
        if '-5' in text or '1e2' in text:
            return cls + ':signed-or-exponent-numeral'
    return cls


def any_none(t):
    if isinstance(t, list):
        return any(any_none(x) for x in t)
    return t is None


def replay(case, rep):
    ck = Checker(rep)
    c = case['case'] or {}
    ck.prelude = c.get('prelude')
    if 'tree' in c:
        tree = tree_from_json(c['tree'])
        exp = set(c['expect']) if c.get('expect') else None
        kind, detail = ck.judge(tree, None, exp)
    elif c.get('model'):
        rep.notes.append('model replay: re-run the check')
        return
    else:
        exp = set(c['expect']) if c.get('expect') else None
        kind, detail = ck.judge(None, c['text'], exp)
    rep.case(key=1)
    if kind and kind not in ('outside', 'invalid'):
        rep.violation(case['key'], detail, c)
