"""Entry point of one shard: python -m vf.shard ID tier seed k n outfile"""
import argparse
import importlib
import json
import os
import sys
import time
import traceback

from . import common


def main():
    ap = argparse.ArgumentParser()
    ap.add_argument('prop')
    ap.add_argument('tier')
    ap.add_argument('seed', type=int)
    ap.add_argument('k', type=int)
    ap.add_argument('n', type=int)
    ap.add_argument('out')
    ap.add_argument('--replay', default=None)
    ap.add_argument('--only', default=None)
    a = ap.parse_args()
    common.bind_repo()
    # diagnostics: SIGUSR1 dumps the Python stack of a shard that seems stuck
    try:
        import faulthandler
        import signal
        faulthandler.register(signal.SIGUSR1, all_threads=True)
        if os.environ.get('VERIF_DUMP_AFTER'):
            faulthandler.dump_traceback_later(
                int(os.environ['VERIF_DUMP_AFTER']), repeat=False)
    except Exception:
        pass
    sys.setrecursionlimit(1000)   # CPython default; C20 relies on it
    from . import registry
    info = registry.PROPS[a.prop]
    mod = importlib.import_module('vf.' + info['module'])
    rep = common.Reporter(a.prop, a.tier, a.seed, a.k, a.n)
    # quick workloads are bounded by counts (sized for ~30 s on an idle
    # machine); the time budget only cuts them short on a badly overloaded
    # one.  Thorough workloads run until their budget is used.
    budget = info.get('budget', {}).get(a.tier,
                                        200 if a.tier == 'quick' else 420)
    rep.deadline = rep.full_deadline = time.time() + budget
    rep.only = a.only
    try:
        if a.replay:
            with open(a.replay) as f:
                case = json.load(f)
            mod.replay(case, rep)
        else:
            mod.run(rep)
    except common.Inconclusive as e:
        rep.inconclusive_because(str(e))
    except Exception as e:    # harness failure: never a verdict
        rep.inconclusive_because('harness exception in shard %d: %s\n%s' % (
            a.k, e, traceback.format_exc()[-1500:]))
    with open(a.out, 'w') as f:
        json.dump(rep.dump(), f, default=str)
    return 0


if __name__ == '__main__':
    sys.exit(main())
