"""Generator of SMT-LIB script *text* with syntactic variants (C08 workload).

The generator is type directed and tracks scopes itself, so that what it
writes is meant to be well-sorted SMT-LIB 2.6; whether it is, and what it
means, is decided by the independent reader (vf/smtread.py), never by this
module.  Scripts are token trees (nested lists); atoms are raw strings,
('s', name) symbols and ('str', value) string literals, so that the renderer
can choose quoting, white space and comments, and the shrinker can work on
the tree."""
from fractions import Fraction

from . import bp as B
from . import smtread as S

SIMPLE_NAMES = ['x', 'y', 'z', 'u', 'v', 'w', 'f', 'g', 'h', 'a', 'b', 'c',
                'p', 'q', 'r', 'm', 'n', 'k', 'x!1', '_t', 'vv', 'v_1', '$e',
                'a.b', '~q', 'X', 'Y']
QUOTED_NAMES = ['x y', 'a(b', 'it;s', 'q"q', ' lead', 'λ', '#c', 'a b ']

LOGICS = {
    'int': ['QF_LIA', 'QF_UFLIA', 'QF_IDL', 'QF_NIA', 'LIA', 'QF_AUFLIA',
            'AUFLIA', None],
    'real': ['QF_LRA', 'QF_UFLRA', 'QF_RDL', 'QF_NRA', 'LRA', 'UFLRA'],
    'mixed': ['QF_UFLIRA', 'AUFLIRA', 'UFLIRA', 'QF_NIRA', 'AUFNIRA',
              'QF_AUFBVLIRA', None, None],
    'bv': ['QF_BV', 'QF_UFBV', 'QF_AUFBV', 'QF_ABV', 'QF_AUFBVLIRA', None],
    'string': ['QF_SLIA', None],
    'uf': ['QF_UF', 'QF_AX', 'QF_AUFLIA', None],
}


def sym(n):
    return ('s', n)


def is_simple(n):
    return bool(n) and all(c in S.SYMCHARS for c in n) and \
        not n[0].isdigit() and n not in S.RESERVED


class TextGen(object):
    def __init__(self, rng, theme=None, depth=3, features=None):
        self.rng = rng
        self.theme = theme or rng.choice(sorted(LOGICS))
        self.logic = rng.choice(LOGICS[self.theme])
        lg = S.Logic(self.logic)
        self.numeral_real = lg.numeral_sort() == B.REAL
        self.depth = depth
        self.consts = {}     # name -> type (declared constants)
        self.funs = {}       # name -> (params, ret) declared functions
        self.macros = {}     # name -> (params, ret)
        self.sorts = {}      # declared sort name -> arity
        self.sort_alias = {}  # define-sort name -> type
        self.saved = []
        self.named = set()
        self.ever = set()
        self.popped_macros = set()
        self.cmds = []
        self.feats = set()
        self.off = set(features.get('off', ())) if features else set()
        self.counter = 0
        self.types = self.pick_types()

    # ------------------------------------------------------------------
    def on(self, feat, p):
        if feat in self.off:
            return False
        if self.rng.random() < p:
            self.feats.add(feat)
            return True
        return False

    def pick_types(self):
        r = self.rng
        th = self.theme
        ts = [B.BOOL]
        if th == 'int':
            ts += [B.INT]
            if self.logic is None or 'A' in (self.logic or '').replace(
                    'LIA', '').replace('NIA', ''):
                ts += [B.ARR(B.INT, B.INT), B.ARR(B.INT, B.BOOL)]
        elif th == 'real':
            ts += [B.REAL]
        elif th == 'mixed':
            ts += [B.INT, B.REAL]
            if self.logic is None or self.logic.startswith(('AUF', 'QF_AUF')):
                ts += [B.ARR(B.INT, B.REAL)]
        elif th == 'bv':
            ts += [B.BV(w) for w in r.sample([1, 2, 3, 4, 8], 3)]
            if self.logic is None or 'A' in self.logic.replace('QF_', ''):
                w = ts[1][1]
                ts += [B.ARR(B.BV(w), B.BV(w))]
        elif th == 'string':
            ts += [B.STRING, B.INT]
        elif th == 'uf':
            ts += [('U', 'S'), ('U', 'T')]
            if self.logic in ('QF_AX', 'QF_AUFLIA', None):
                ts += [B.ARR(('U', 'S'), ('U', 'T'))]
            if self.logic in ('QF_AUFLIA', None):
                ts += [B.INT]
        return ts

    # ------------------------------------------------------------------
    # sorts
    # ------------------------------------------------------------------
    def sort(self, t):
        for n, tt in self.sort_alias.items():
            if tt == t and self.on('sort-alias', 0.5):
                return sym(n)
        k = t[0]
        if k in ('Bool', 'Int', 'Real', 'String'):
            return k
        if k == 'BV':
            return ['_', 'BitVec', str(t[1])]
        if k == 'Array':
            return ['Array', self.sort(t[1]), self.sort(t[2])]
        if k == 'U':
            return sym(t[1])
        raise ValueError(t)

    # ------------------------------------------------------------------
    # names
    # ------------------------------------------------------------------
    def visible(self, sc):
        """name -> type for constants visible in scope sc (locals first)."""
        out = dict(self.consts)
        for n, (ps, ret) in self.macros.items():
            if not ps:
                out[n] = ret
        for n in self.funs:
            out.pop(n, None)
        out.update(sc)
        for n, v in list(out.items()):
            if v is None:
                del out[n]
        return out

    def used_globally(self, n):
        return n in self.consts or n in self.funs or n in self.macros or \
            n in self.sorts or n in self.sort_alias

    def fresh_global(self):
        r = self.rng
        pool = SIMPLE_NAMES + (QUOTED_NAMES if 'quoted-hostile' not in
                               self.off else [])
        if self.on('empty-symbol', 0.03):
            pool = ['']
        for _ in range(30):
            n = r.choice(pool)
            if not self.used_globally(n) and n not in S.CORE_SYMBOLS and \
                    n not in self.named:
                if n in self.ever:
                    if 'redeclare' in self.off:
                        continue
                    self.feats.add('redeclare')
                if not is_simple(n):
                    self.feats.add('quoted-hostile')
                self.ever.add(n)
                return n
        self.counter += 1
        return 'n%d' % self.counter

    def binder_name(self, sc, t, avoid=()):
        """A name for a let / quantifier / parameter variable: often one
        that is already visible (shadowing), preferably of the same type."""
        r = self.rng
        vis = self.visible(sc)
        same = [n for n, tt in vis.items() if tt == t and n not in avoid]
        other = [n for n in list(vis) + list(self.funs) + list(self.macros)
                 if n not in avoid]
        x = r.random()
        if same and x < 0.45 and 'shadow' not in self.off:
            self.feats.add('shadow-same-sort')
            return r.choice(sorted(same))
        if other and x < 0.6 and 'shadow' not in self.off:
            n = r.choice(sorted(other))
            if n in self.macros:
                self.feats.add('shadow-definition')
            elif n in self.funs:
                self.feats.add('shadow-function')
            else:
                self.feats.add('shadow-other-sort')
            return n
        for _ in range(20):
            n = r.choice(SIMPLE_NAMES)
            if n not in avoid and n not in vis and \
                    not self.used_globally(n):
                if n in self.ever and 'redeclare' in self.off:
                    continue
                self.ever.add(n)
                return n
        self.counter += 1
        return 'l%d' % self.counter

    # ------------------------------------------------------------------
    # literals
    # ------------------------------------------------------------------
    def literal(self, t):
        r = self.rng
        k = t[0]
        if k == 'Bool':
            return r.choice(['true', 'false'])
        if k == 'Int':
            v = r.choice([0, 1, 2, 3, 5, 7, 10, 12, 100, 2 ** 40])
            if self.on('neg-numeral', 0.25):
                return ['-', str(v)]
            return str(v)
        if k == 'Real':
            n = r.choice([0, 1, 2, 3, 5, 10, 25])
            d = r.choice([1, 2, 3, 4, 10])
            x = r.random()
            if x < 0.35:
                self.feats.add('decimal')
                dec = r.choice(['0.0', '0.5', '1.0', '2.5', '3.25', '10.0',
                                '0.125', '7.50'])
                lit = dec
            elif x < 0.6 and self.numeral_real:
                self.feats.add('numeral-as-real')
                lit = str(n)
            elif x < 0.8:
                self.feats.add('rational')
                if self.numeral_real or r.random() < 0.5:
                    lit = ['/', self.numtok(n), self.numtok(d)]
                else:
                    lit = ['/', '%d.0' % n, '%d.0' % d]
            else:
                self.feats.add('decimal')
                lit = '%d.0' % n
            if self.on('neg-numeral', 0.25):
                if isinstance(lit, list) and r.random() < 0.5:
                    return ['/', ['-', lit[1]], lit[2]]
                return ['-', lit]
            return lit
        if k == 'BV':
            w = t[1]
            v = r.choice([0, 1, 2 ** w - 1, r.randrange(2 ** w)])
            x = r.random()
            if x < 0.4:
                self.feats.add('bv-binary')
                return '#b' + format(v, '0%db' % w)
            if x < 0.7 and w % 4 == 0:
                self.feats.add('bv-hex')
                h = format(v, '0%dx' % (w // 4))
                return '#x' + (h.upper() if r.random() < 0.5 else h)
            self.feats.add('bv-indexed')
            return ['_', 'bv%d' % v, str(w)]
        if k == 'String':
            v = r.choice(['', 'a', 'ab', 'abc', '7', '12', 'b a', 'say "hi"',
                          '"', 'x;y', '(', 'a|b', 'A\\n', 'tab\there'])
            if '"' in v:
                self.feats.add('string-escape')
            if self.on('string-unicode', 0.04):
                v = v + r.choice(['\\u{41}', '\\u{e9}', '\\u0041', '\\x41'])
            return ('str', v)
        if k == 'Array':
            self.feats.add('as-const')
            return [['as', 'const', self.sort(t)], self.term(t[2], 0, {})]
        raise NoLiteral(t)

    def numtok(self, n):
        if self.numeral_real or self.rng.random() < 0.5:
            return str(n)
        return '%d.0' % n

    # ------------------------------------------------------------------
    # terms
    # ------------------------------------------------------------------
    def term(self, t, d, sc):
        r = self.rng
        if d <= 0 or r.random() < 0.12:
            return self.leaf(t, sc)
        x = r.random()
        if x < 0.10 and 'let' not in self.off:
            return self.let(t, d, sc)
        if x < 0.16:
            return ['ite', self.term(B.BOOL, d - 1, sc),
                    self.term(t, d - 1, sc), self.term(t, d - 1, sc)]
        if x < 0.22:
            a = self.apply_fun(t, d, sc)
            if a is not None:
                return a
        if x < 0.25 and t == B.BOOL and self.on('annotation', 1.0):
            return self.annotation(d, sc)
        if x < 0.30:
            a = self.select(t, d, sc)
            if a is not None:
                return a
        k = t[0]
        try:
            if k == 'Bool':
                return self.bool_term(d, sc)
            if k == 'Int':
                return self.int_term(d, sc)
            if k == 'Real':
                return self.real_term(d, sc)
            if k == 'BV':
                return self.bv_term(t[1], d, sc)
            if k == 'String':
                return self.string_term(d, sc)
            if k == 'Array':
                return self.array_term(t, d, sc)
        except NoLiteral:
            pass
        return self.leaf(t, sc)

    def leaf(self, t, sc):
        r = self.rng
        vis = self.visible(sc)
        cands = sorted(n for n, tt in vis.items() if tt == t)
        if cands and (r.random() < 0.7 or t[0] == 'U'):
            return sym(r.choice(cands))
        if t[0] == 'U':
            # declare a constant of that sort on the fly
            n = self.fresh_global()
            self.declare_const(n, t)
            if n in sc:
                raise NoLiteral(t)
            return sym(n)
        return self.literal(t)

    def some_type(self, pool=None):
        return self.rng.choice(pool or self.types)

    def let(self, t, d, sc):
        r = self.rng
        k = r.choice([1, 1, 2, 2, 3])
        binds = []
        new = dict(sc)
        names = []
        for _ in range(k):
            bt = self.some_type()
            n = self.binder_name(sc, bt, avoid=names)
            names.append(n)
            e = self.term(bt, d - 1, sc)      # outer scope: parallel let
            binds.append([sym(n), e])
            new[n] = bt
        self.feats.add('let%d' % min(k, 2))
        body = self.term(t, d - 1, new)
        return ['let', binds, body]

    def quantifier(self, d, sc):
        r = self.rng
        k = r.choice([1, 1, 2])
        new = dict(sc)
        vs = []
        names = []
        qtypes = [t for t in self.types if t[0] in ('Bool', 'Int', 'Real',
                                                    'BV', 'U')
                  and (t[0] != 'BV' or t[1] <= 3)]
        for _ in range(k):
            bt = r.choice(qtypes)
            n = self.binder_name(sc, bt, avoid=names)
            names.append(n)
            vs.append([sym(n), self.sort(bt)])
            new[n] = bt
        self.feats.add('quantifier')
        body = self.term(B.BOOL, d - 1, new)
        if is_simple(names[0]) and self.on('pattern', 0.1):
            self.feats.add('attribute-sexpr')
            body = ['!', body, ':pattern', [self.leaf_var(new, names[0])]]
        return [r.choice(['forall', 'exists']), vs, body]

    def leaf_var(self, sc, n):
        return sym(n)

    def annotation(self, d, sc):
        r = self.rng
        inner = self.term(B.BOOL, d - 1, sc)
        x = r.random()
        if x < 0.6:
            self.counter += 1
            n = 'nm%d' % self.counter
            self.named.add(n)
            return ['!', inner, ':named', sym(n)]
        if x < 0.8:
            return ['!', inner, ':weight', '3']
        self.feats.add('attribute-sexpr')
        return ['!', inner, ':note', ['a', 'b', ['c']], ':named',
                sym('nn%d' % r.randrange(10 ** 6))]

    def apply_fun(self, t, d, sc):
        r = self.rng
        cands = [(n, ps) for n, (ps, ret) in self.funs.items()
                 if ret == t and sc.get(n, 0) == 0 and n not in sc]
        cands += [(n, ps) for n, (ps, ret) in self.macros.items()
                  if ret == t and ps and n not in sc]
        if not cands:
            return None
        n, ps = r.choice(sorted(cands))
        if n in self.macros:
            self.feats.add('macro-application')
        return [sym(n)] + [self.term(p, d - 1, sc) for p in ps]

    def select(self, t, d, sc):
        arrs = [a for a in self.types if a[0] == 'Array' and a[2] == t]
        if not arrs:
            return None
        a = self.rng.choice(arrs)
        return ['select', self.term(a, d - 1, sc), self.term(a[1], d - 1, sc)]

    def args(self, t, n, d, sc):
        return [self.term(t, d - 1, sc) for _ in range(n)]

    def arity(self, feat):
        r = self.rng
        if self.on(feat, 0.3):
            return r.choice([3, 3, 4])
        return 2

    def bool_term(self, d, sc):
        r = self.rng
        ops = ['not', 'and', 'or', '=>', 'xor', '=', 'distinct', 'cmp']
        if any(t[0] == 'BV' for t in self.types):
            ops += ['bvcmp', 'bvcmp']
        if B.STRING in self.types:
            ops += ['strpred']
        if 'quantifier' not in self.off and (self.logic is None or
                                             not self.logic.startswith('QF_')):
            ops += ['quant', 'quant']
        op = r.choice(ops)
        if op == 'not':
            return ['not', self.term(B.BOOL, d - 1, sc)]
        if op in ('and', 'or'):
            n = r.choice([2, 2, 3, 4])
            if self.on('unary-and-or', 0.05):
                n = 1
            return [op] + self.args(B.BOOL, n, d, sc)
        if op == '=>':
            return ['=>'] + self.args(B.BOOL, self.arity('chain-implies'), d,
                                      sc)
        if op == 'xor':
            self.feats.add('xor')
            return ['xor'] + self.args(B.BOOL, self.arity('chain-xor'), d, sc)
        if op in ('=', 'distinct'):
            t = self.some_type()
            n = self.arity('chain-' + op)
            if op == 'distinct':
                self.feats.add('distinct')
            return [op] + self.args(t, n, d, sc)
        if op == 'cmp':
            nums = [t for t in self.types if t in (B.INT, B.REAL)]
            if not nums:
                return ['not', self.term(B.BOOL, d - 1, sc)]
            t = r.choice(nums)
            return [r.choice(['<', '<=', '>', '>='])] + \
                self.args(t, self.arity('chain-cmp'), d, sc)
        if op == 'bvcmp':
            t = r.choice([t for t in self.types if t[0] == 'BV'])
            o = r.choice(['bvult', 'bvule', 'bvugt', 'bvuge', 'bvslt',
                          'bvsle', 'bvsgt', 'bvsge'])
            return [o] + self.args(t, 2, d, sc)
        if op == 'strpred':
            o = r.choice(['str.prefixof', 'str.suffixof', 'str.contains'])
            return [o] + self.args(B.STRING, 2, d, sc)
        if op == 'quant':
            return self.quantifier(d, sc)
        raise AssertionError(op)

    def int_term(self, d, sc):
        r = self.rng
        ops = ['+', '-', '*', 'neg', 'div']
        if 'int-mod' not in self.off:
            ops.append('mod')
        if 'int-abs' not in self.off:
            ops.append('abs')
        if B.STRING in self.types:
            ops += ['str.len', 'str.indexof', 'str.to_int', 'str.len']
        if any(t[0] == 'BV' for t in self.types):
            ops += ['bv2nat']
        op = r.choice(ops)
        if op in ('+', '*'):
            return [op] + self.args(B.INT, r.choice([2, 2, 3]), d, sc)
        if op == '-':
            return ['-'] + self.args(B.INT, self.arity('chain-minus'), d, sc)
        if op == 'neg':
            self.feats.add('unary-minus')
            return ['-', self.term(B.INT, d - 1, sc)]
        if op == 'div':
            self.feats.add('int-div')
            return ['div', self.term(B.INT, d - 1, sc),
                    self.nonzero(B.INT, d, sc)]
        if op == 'mod':
            self.feats.add('int-mod')
            return ['mod', self.term(B.INT, d - 1, sc),
                    self.nonzero(B.INT, d, sc)]
        if op == 'abs':
            self.feats.add('int-abs')
            return ['abs', self.term(B.INT, d - 1, sc)]
        if op == 'str.len':
            return ['str.len', self.term(B.STRING, d - 1, sc)]
        if op == 'str.indexof':
            return ['str.indexof', self.term(B.STRING, d - 1, sc),
                    self.term(B.STRING, d - 1, sc), self.term(B.INT, d - 1,
                                                              sc)]
        if op == 'str.to_int':
            self.feats.add('str-int-conversions')
            return ['str.to_int' if self.on('std-str-int', 0.5)
                    else 'str.to.int',
                    self.term(B.STRING, d - 1, sc)]
        if op == 'bv2nat':
            t = r.choice([t for t in self.types if t[0] == 'BV'])
            return ['bv2nat', self.term(t, d - 1, sc)]
        raise AssertionError(op)

    def nonzero(self, t, d, sc):
        if self.rng.random() < 0.7:
            v = self.rng.choice([1, 2, 3, 7])
            if t == B.INT:
                return str(v)
            return str(v) if self.numeral_real and self.rng.random() < 0.5 \
                else '%d.0' % v
        return self.term(t, d - 1, sc)

    def real_term(self, d, sc):
        r = self.rng
        ops = ['+', '-', '*', 'neg', '/']
        if B.INT in self.types:
            ops += ['to_real']
        op = r.choice(ops)
        if op in ('+', '*'):
            return [op] + self.args(B.REAL, r.choice([2, 2, 3]), d, sc)
        if op == '-':
            return ['-'] + self.args(B.REAL, self.arity('chain-minus'), d, sc)
        if op == 'neg':
            self.feats.add('unary-minus')
            return ['-', self.term(B.REAL, d - 1, sc)]
        if op == '/':
            self.feats.add('real-division')
            return ['/', self.term(B.REAL, d - 1, sc),
                    self.nonzero(B.REAL, d, sc)]
        if op == 'to_real':
            self.feats.add('to_real')
            return ['to_real', self.term(B.INT, d - 1, sc)]
        raise AssertionError(op)

    def bv_term(self, w, d, sc):
        r = self.rng
        t = B.BV(w)
        ops = ['un', 'bin', 'bin', 'ext', 'rot', 'extract', 'concat',
               'repeat', 'comp']
        op = r.choice(ops)
        if op == 'un':
            return [r.choice(['bvnot', 'bvneg']), self.term(t, d - 1, sc)]
        if op == 'bin':
            o = r.choice(['bvand', 'bvor', 'bvxor', 'bvadd', 'bvsub',
                          'bvmul', 'bvudiv', 'bvurem', 'bvshl', 'bvlshr',
                          'bvashr', 'bvsdiv', 'bvsrem', 'bvsmod', 'bvnand',
                          'bvnor', 'bvxnor'])
            n = 2
            if o in ('bvand', 'bvor', 'bvxor', 'bvadd', 'bvmul') and \
                    self.on('chain-bv', 0.15):
                n = 3
            return [o] + self.args(t, n, d, sc)
        if op == 'ext' and w >= 2:
            k = r.randrange(0, w)
            self.feats.add('bv-extend')
            return [['_', r.choice(['zero_extend', 'sign_extend']), str(k)],
                    self.term(B.BV(w - k), d - 1, sc)]
        if op == 'rot':
            self.feats.add('bv-rotate')
            amount = r.randrange(0, w)
            if self.on('rotate-wide', 0.3):
                amount = r.randrange(w, 2 * w + 2)
            return [['_', r.choice(['rotate_left', 'rotate_right']),
                     str(amount)],
                    self.term(t, d - 1, sc)]
        if op == 'extract':
            big = r.choice([w, w + 1, w + 2, 8])
            if big < w:
                big = w
            lo = r.randrange(0, big - w + 1)
            self.feats.add('bv-extract')
            return [['_', 'extract', str(lo + w - 1), str(lo)],
                    self.term(B.BV(big), d - 1, sc)]
        if op == 'concat' and w >= 2:
            a = r.randrange(1, w)
            self.feats.add('bv-concat')
            return ['concat', self.term(B.BV(a), d - 1, sc),
                    self.term(B.BV(w - a), d - 1, sc)]
        if op == 'repeat' and w % 2 == 0:
            self.feats.add('bv-repeat')
            return [['_', 'repeat', '2'], self.term(B.BV(w // 2), d - 1, sc)]
        if op == 'comp' and w == 1:
            tt = r.choice([x for x in self.types if x[0] == 'BV'])
            return ['bvcomp'] + self.args(tt, 2, d, sc)
        return ['bvadd'] + self.args(t, 2, d, sc)

    def string_term(self, d, sc):
        r = self.rng
        op = r.choice(['++', 'at', 'substr', 'replace', 'from_int'])
        s = lambda: self.term(B.STRING, d - 1, sc)
        i = lambda: self.term(B.INT, d - 1, sc)
        if op == '++':
            return ['str.++'] + [s() for _ in range(r.choice([2, 2, 3]))]
        if op == 'at':
            return ['str.at', s(), i()]
        if op == 'substr':
            return ['str.substr', s(), i(), i()]
        if op == 'replace':
            return ['str.replace', s(), s(), s()]
        self.feats.add('str-int-conversions')
        return ['str.from_int' if self.on('std-str-int', 0.5)
                else 'int.to.str', i()]

    def array_term(self, t, d, sc):
        return ['store', self.term(t, d - 1, sc), self.term(t[1], d - 1, sc),
                self.term(t[2], d - 1, sc)]

    # ------------------------------------------------------------------
    # commands
    # ------------------------------------------------------------------
    def declare_const(self, n, t):
        if t[0] == 'U' and t[1] not in self.sorts:
            self.sorts[t[1]] = 0
            self.cmds.append(['declare-sort', sym(t[1]), '0'])
        if self.on('declare-const', 0.4):
            self.cmds.append(['declare-const', sym(n), self.sort(t)])
        else:
            self.cmds.append(['declare-fun', sym(n), [], self.sort(t)])
        self.consts[n] = t

    def declare_sorts_of(self, t):
        if t[0] == 'U' and t[1] not in self.sorts:
            self.sorts[t[1]] = 0
            self.cmds.append(['declare-sort', sym(t[1]), '0'])
        elif t[0] == 'Array':
            self.declare_sorts_of(t[1])
            self.declare_sorts_of(t[2])

    def declare_fun(self):
        r = self.rng
        n = self.fresh_global()
        k = r.choice([1, 1, 2])
        ptypes = [t for t in self.types if t[0] != 'Array']
        ps = tuple(r.choice(ptypes) for _ in range(k))
        ret = r.choice(self.types)
        self.cmds.append(['declare-fun', sym(n), [self.sort(p) for p in ps],
                          self.sort(ret)])
        self.funs[n] = (ps, ret)

    def define_fun(self):
        r = self.rng
        again = sorted(m for m in self.popped_macros
                       if not self.used_globally(m))
        if again and r.random() < 0.6:
            # a definition removed by (pop) is written again, differently
            n = r.choice(again)
            self.popped_macros.discard(n)
            self.feats.add('redefine-after-pop')
        else:
            n = self.fresh_global()
        k = r.choice([0, 1, 1, 2, 2])
        ret = r.choice(self.types)
        sc = {}
        ps = []
        plist = []
        names = []
        for _ in range(k):
            pt = r.choice([t for t in self.types])
            pn = self.binder_name({}, pt, avoid=names)
            names.append(pn)
            ps.append(pt)
            plist.append([sym(pn), self.sort(pt)])
            sc[pn] = pt
        body = self.term(ret, max(1, self.depth - 1), sc)
        self.feats.add('define-fun%d' % min(k, 1))
        self.cmds.append(['define-fun', sym(n), plist, self.sort(ret), body])
        self.macros[n] = (tuple(ps), ret)

    def define_sort(self):
        t = self.rng.choice(self.types)
        n = self.fresh_global()
        self.cmds.append(['define-sort', sym(n), [], self.sort(t)])
        self.sort_alias[n] = t
        self.feats.add('define-sort')

    def snapshot(self):
        return (dict(self.consts), dict(self.funs), dict(self.macros),
                dict(self.sorts), dict(self.sort_alias))

    def restore(self, s):
        self.popped_macros |= set(self.macros) - set(s[2])
        self.consts, self.funs, self.macros, self.sorts, self.sort_alias = \
            [dict(x) for x in s]

    def script(self, n_cmds=10):
        r = self.rng
        if self.on('set-info', 0.3):
            self.cmds.append(['set-info', ':status', r.choice(['sat',
                                                               'unknown'])])
        if self.on('set-option', 0.3):
            self.cmds.append(['set-option', ':produce-models', 'true'])
        if self.logic is not None:
            self.cmds.append(['set-logic', self.logic])
        for t in self.types:
            self.declare_sorts_of(t)
        for t in self.types:
            for _ in range(r.choice([1, 2])):
                self.declare_const(self.fresh_global(), t)
        for _ in range(n_cmds):
            x = r.random()
            if x < 0.40:
                self.cmds.append(['assert', self.term(B.BOOL, self.depth,
                                                      {})])
            elif x < 0.52 and 'define-fun' not in self.off:
                self.define_fun()
            elif x < 0.60 and (self.logic is None or 'UF' in self.logic):
                self.declare_fun()
            elif x < 0.66:
                self.declare_const(self.fresh_global(), self.some_type())
            elif x < 0.72 and 'push-pop' not in self.off:
                if r.random() < 0.15:
                    # zero levels: a legal no-op
                    self.cmds.append([r.choice(['push', 'pop']), '0'])
                    self.feats.add('push-pop-0')
                    continue
                k = r.choice([1, 1, 2])
                for _ in range(k):
                    self.saved.append(self.snapshot())
                self.cmds.append(['push', str(k)] if k > 1 or
                                 r.random() < 0.7 else ['push'])
                self.feats.add('push-pop')
            elif x < 0.79 and self.saved:
                k = r.randrange(1, len(self.saved) + 1)
                for _ in range(k):
                    s = self.saved.pop()
                self.restore(s)
                self.cmds.append(['pop', str(k)] if k > 1 or
                                 r.random() < 0.7 else ['pop'])
            elif x < 0.84:
                self.cmds.append(['check-sat'])
            elif x < 0.88 and self.on('get-value', 1.0):
                ts = [self.term(self.some_type(), 1, {})
                      for _ in range(r.choice([1, 2]))]
                self.cmds.append(['get-value', ts])
            elif x < 0.91 and self.on('check-sat-assuming', 1.0):
                lits = []
                for n, t in sorted(self.consts.items()):
                    if t == B.BOOL:
                        lits.append(sym(n) if r.random() < 0.5
                                    else ['not', sym(n)])
                if lits:
                    self.cmds.append(['check-sat-assuming', lits[:3]])
            elif x < 0.94 and self.on('define-sort', 1.0):
                self.define_sort()
            elif x < 0.96 and not self.saved and self.on('reset', 1.0):
                self.cmds.append(['reset'])
                self.consts, self.funs, self.macros = {}, {}, {}
                self.sorts, self.sort_alias = {}, {}
                self.named = set()
                if self.logic is not None:
                    self.cmds.append(['set-logic', self.logic])
                for t in self.types:
                    self.declare_sorts_of(t)
                for t in self.types:
                    self.declare_const(self.fresh_global(), t)
            else:
                self.cmds.append(['assert', self.term(B.BOOL, self.depth,
                                                      {})])
        self.cmds.append(['assert', self.term(B.BOOL, self.depth, {})])
        if r.random() < 0.5:
            self.cmds.append(['check-sat'])
        if self.on('exit', 0.3):
            self.cmds.append(['exit'])
        return self.cmds


class NoLiteral(Exception):
    pass


# ---------------------------------------------------------------------------
# rendering
# ---------------------------------------------------------------------------
def render_atom(a, rng=None, style=None):
    if isinstance(a, str):
        return a
    if a[0] == 's':
        n = a[1]
        if is_simple(n) and not (rng is not None and style.get('quote')
                                 and rng.random() < 0.15):
            return n
        return '|%s|' % n
    if a[0] == 'str':
        return '"%s"' % a[1].replace('"', '""')
    raise ValueError(a)


def render(x, rng=None, style=None):
    """Token tree -> text.  Without rng: canonical single-space form."""
    out = []

    def sep():
        if rng is None or not style.get('space'):
            return ' '
        return rng.choice([' ', ' ', ' ', '  ', '\n', '\t', '\r\n', '\n  ',
                           ' ; c (\n' if style.get('comment') else ' '])

    def go(y, top):
        if isinstance(y, list):
            out.append('(')
            for i, z in enumerate(y):
                if i:
                    out.append(sep())
                elif rng is not None and style.get('space') and \
                        rng.random() < 0.05:
                    out.append(' ')
                go(z, False)
            if rng is not None and style.get('space') and \
                    rng.random() < 0.05:
                out.append(' ')
            out.append(')')
        else:
            out.append(render_atom(y, rng, style))
    for c in x:
        go(c, True)
        if rng is not None and style.get('comment') and rng.random() < 0.1:
            out.append(' ; trailing "comment" |x\n')
        elif rng is not None and style.get('space'):
            out.append(rng.choice(['\n', '\n', '\r\n', ' ', '\n\n']))
        else:
            out.append('\n')
    return ''.join(out)


def heads(x, acc=None):
    """Set of head tokens / literal classes of a token tree (for keys)."""
    if acc is None:
        acc = set()
    if isinstance(x, list):
        if x and isinstance(x[0], str):
            acc.add(x[0])
        for y in x:
            heads(y, acc)
    elif isinstance(x, str):
        if x[:2] == '#b':
            acc.add('#b')
        elif x[:2] == '#x':
            acc.add('#x')
        elif x[:1].isdigit():
            acc.add('decimal' if '.' in x else 'numeral')
    elif x[0] == 'str':
        acc.add('string-literal')
    return acc
