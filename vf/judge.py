"""Semantic comparison helpers shared by the property modules."""
import random
from fractions import Fraction

from . import bp as B
from . import refeval as R
from . import common

QDOMS = [
    None,
    {'Int': [0], 'Real': [Fraction(0)], 'String': ['']},
    {'Int': [-2, 0, 3, 10 ** 20 + 1],
     'Real': [Fraction(-3, 2), Fraction(0), Fraction(1, 3)],
     'String': ['', 'b', 'ab', '7']},
    {'Int': [5], 'Real': [Fraction(-1)], 'String': ['ab']},
]


def const_class(b):
    op, pl, _ = b
    if op == 'int':
        return 'int0' if pl == 0 else ('int+' if pl > 0 else 'int-')
    if op == 'real':
        return 'real0' if pl == 0 else ('real+' if pl > 0 else 'real-')
    if op == 'bool':
        return 'true' if pl else 'false'
    if op == 'str':
        return 'str0' if pl == '' else 'str'
    if op == 'bv':
        v, w = pl
        return 'bv0' if v == 0 else ('bvmax' if v == 2 ** w - 1 else 'bv')
    return op


def shape_key(b, depth=1):
    op, pl, kids = b
    if not kids:
        return const_class(b)
    if depth <= 0:
        return op
    return '%s(%s)' % (op, ','.join(shape_key(k, depth - 1) for k in kids))


def interps_for(syms, rng, n_samples=32, seed=0, limit=4096, pool=None):
    return R.interpretations(syms, rng, n_samples=n_samples, limit=limit,
                             seed=seed, pool=pool)


def compare(b1, b2, rng, n_samples=32, seed=0, extra_syms=(), qf_only=False,
            step_budget=600000):
    """Compare the values of two blueprints on all/sampled interpretations.

    Returns (verdict, info): verdict in 'eq', 'diff', 'skip'.
    info: for 'diff' a dict with the separating interpretation; for 'eq' the
    number of interpretations compared and whether exhaustive."""
    syms = set(B.free_syms(b1)) | set(B.free_syms(b2)) | set(extra_syms)
    has_q = (not qf_only) and (B.has_op(b1, ('forall', 'exists')) or
                               B.has_op(b2, ('forall', 'exists')))
    n = 0
    skipped = 0
    expensive = 0
    steps = 0
    exhaustive = R.interp_space(sorted(syms)) is not None
    pool = R.constant_pool(b1, b2)
    for idx, I in enumerate(interps_for(syms, rng, n_samples, seed,
                                        pool=pool)):
        doms = QDOMS if has_q and idx % 4 == 0 else [QDOMS[idx % len(QDOMS)]
                                                     if has_q else None]
        if steps > step_budget or expensive >= 3:
            break
        for D in doms:
            try:
                e1 = R.Evaluator(I, D, 100000)
                e2 = R.Evaluator(I, D, 100000)
                try:
                    v1 = e1.ev(b1)
                    v2 = e2.ev(b2)
                finally:
                    steps += e1.steps + e2.steps
            except R.TooExpensive:
                expensive += 1
                continue
            except R.Unconstrained:
                skipped += 1
                continue
            n += 1
            if v1 != v2:
                return 'diff', {'I': {k: R.vrepr(v) for k, v in I.items()},
                                'D': repr(D), 'v1': R.vrepr(v1),
                                'v2': R.vrepr(v2)}
    if n == 0:
        return 'skip', {'skipped': skipped}
    return 'eq', {'n': n, 'exhaustive': exhaustive and not has_q
                  and steps <= step_budget, 'skipped': skipped}


class ShrinkBudget(object):
    """Limits the number of (expensive) shrinks per shard and caches keys."""

    def __init__(self, rep, max_shrinks=40):
        self.rep = rep
        self.left = max_shrinks
        self.cache = {}

    def classify(self, prop, proc, kind, b, fails, detail=None):
        """Shrink b w.r.t. fails and return the mechanism key."""
        pre = (proc, kind, shape_key(b, 2))
        if pre in self.cache:
            return self.cache[pre], None
        if self.left <= 0:
            self.rep.count('violations_not_shrunk')
            key = '%s/%s/%s/unshrunk:%s' % (prop, proc, kind, shape_key(b, 1))
            return key, b
        self.left -= 1
        m = common.shrink(b, fails)
        key = '%s/%s/%s/%s' % (prop, proc, kind, shape_key(m, 1))
        if detail:
            key += '/' + detail(m)
        self.cache[pre] = key
        return key, m
