"""C17 - text-interface solvers: legal command stream, replies in sync,
faithful model.  The external solver is vf/refsolver.py."""
import json
import os
import random
import warnings

from . import bp as B
from . import gen as G
from . import monitors as M
from . import common
from . import refeval as R

PROP = 'C17'
PY = '/venv/bin/python'
REFSOLVER = os.path.join(os.path.dirname(os.path.abspath(__file__)),
                         'refsolver.py')


def logdir():
    d = os.path.join(common.OUT, 'c17')
    os.makedirs(d, exist_ok=True)
    return d


def read_log(path):
    out = []
    if not os.path.exists(path):
        return out
    with open(path) as f:
        for line in f:
            try:
                out.append(json.loads(line))
            except Exception:
                pass
    return out


class World(object):
    """Formulas over Bool and BV<=3 with symbols introduced at different
    levels, plus one declared sort."""

    def __init__(self, rng, use_sorts=False):
        self.rng = rng
        self.use_sorts = use_sorts
        self.bools = [B.Sym('p%d' % i, B.BOOL) for i in range(4)]
        self.bvs = [B.Sym('v%d' % i, B.BV(2)) for i in range(3)]
        self.us = [B.Sym('u%d' % i, G.US) for i in range(2)]
        # two instances of one parametric declared sort
        self.up = [[B.Sym('w%d' % i, ('U', 'Pr', (G.US,))) for i in range(2)],
                   [B.Sym('x%d' % i, ('U', 'Pr', (B.BV(2),)))
                    for i in range(2)]]
        self.hostile = [B.Sym('x y', B.BOOL), B.Sym('.def_0', B.BOOL),
                        B.Sym('st:ready', B.BOOL), B.Sym('cnt,0', B.BOOL),
                        B.Sym('a;b', B.BOOL), B.Sym('q#r', B.BOOL)]
        # an array whose literal has a *symbolic* default that occurs
        # nowhere else
        self.arr = B.Sym('ar0', B.ARR(B.BV(2), B.BV(2)))
        self.fills = [B.Sym('fill%d' % i, B.BV(2)) for i in range(2)]

    def term_bv(self, d):
        r = self.rng
        if d <= 0 or r.random() < 0.4:
            return r.choice(self.bvs + [B.BVc(r.randrange(4), 2)])
        op = r.choice(['bvadd', 'bvand', 'bvor', 'bvnot', 'ite', 'bvsub'])
        if op == 'bvnot':
            return ('bvnot', None, (self.term_bv(d - 1),))
        if op == 'ite':
            return ('ite', None, (self.formula(d - 1), self.term_bv(d - 1),
                                  self.term_bv(d - 1)))
        return (op, None, (self.term_bv(d - 1), self.term_bv(d - 1)))

    def formula(self, d=2):
        r = self.rng
        if d <= 0 or r.random() < 0.3:
            k = r.random()
            if k < 0.5:
                return r.choice(self.bools + (self.hostile if k < 0.08
                                              else []))
            if k < 0.56 and not self.use_sorts:
                lit = ('arrayval', B.BV(2), (r.choice(self.fills),))
                if r.random() < 0.3:
                    lit = ('store', None, (lit, self.term_bv(0),
                                           self.term_bv(0)))
                return ('eq', None, (('select', None, (lit, self.term_bv(0))),
                                     self.term_bv(0)))
            if k < 0.85:
                return (r.choice(['eq', 'bvult', 'bvule', 'bvslt']), None,
                        (self.term_bv(1), self.term_bv(1)))
            if not self.use_sorts:
                return r.choice(self.bools)
            if r.random() < 0.3:
                # (one instance per history: every further symbol of a
                # declared sort multiplies the reference solver's
                # enumeration)
                if not hasattr(self, 'grp'):
                    self.grp = r.choice(self.up)
                return ('eq', None, (self.grp[0], self.grp[1]))
            return ('eq', None, (r.choice(self.us), r.choice(self.us)))
        op = r.choice(['and', 'or', 'not', 'implies', 'iff', 'ite'])
        if op == 'not':
            return ('not', None, (self.formula(d - 1),))
        if op == 'ite':
            return ('ite', None, (self.formula(d - 1), self.formula(d - 1),
                                  self.formula(d - 1)))
        return (op, None, (self.formula(d - 1), self.formula(d - 1)))


def truth(live):
    """-> a model (dict name->value) or None, by brute force."""
    syms = set()
    for b in live:
        syms |= set(B.free_syms(b))
    syms = sorted(syms)
    doms = []
    nu = sum(1 for s in syms if s[1][0] == 'U')
    for (_, t) in syms:
        if t[0] == 'U':
            doms.append([R.UVal(t[1], i) for i in range(max(1, nu))])
        else:
            doms.append(R.all_values(t, 64))
    return R.find_model(live, syms, doms)


class History(object):
    def __init__(self, rep, rng, idx):
        self.rep = rep
        self.rng = rng
        self.idx = idx
        self.trace = []

    def bad(self, what, msg):
        self.rep.violation('%s/%s' % (PROP, what),
                           '%s\n  history: %s' % (msg, self.trace[-12:]),
                           {'trace': [str(t) for t in self.trace]})

    def run(self, length, use_shortcuts=False):
        import pysmt.logics as L
        from pysmt.exceptions import SolverReturnedUnknownResultError
        rep, rng = self.rep, self.rng
        env = common.fresh_env()
        use_sorts = (self.idx % 4 == 3)
        world = World(rng, use_sorts)
        log = os.path.join(logdir(), 'h_%d_%d_%d.log' % (
            os.getpid(), rep.shard, self.idx))
        if os.path.exists(log):
            os.unlink(log)
        name = 'ref%d' % self.idx
        fault = log + '.fault'
        if os.path.exists(fault):
            os.unlink(fault)
        env.factory.add_generic_solver(
            name, [PY, REFSOLVER, '--log', log, '--name', name,
                   '--fault', fault],
            list(L.PYSMT_LOGICS))
        frames = [[]]
        nrefused = 0
        model_valid = False
        last_model = None
        ok = True
        solver = None
        try:
            solver = env.factory.Solver(name=name, logic=L.QF_UFBV)
            for step in range(length):
                depth = len(frames) - 1
                ops = ['assert', 'assert', 'assert', 'solve', 'solve',
                       'push1', 'push2', 'is_sat', 'is_valid', 'is_unsat',
                       'reset', 'push0', 'pop0']
                if self.idx % 3 == 2 and nrefused < 1:
                    # (once per history: every new symbol doubles the
                    # reference solver's enumeration)
                    ops += ['refused_then_retry'] * 2
                if depth >= 1:
                    ops += ['pop1', 'pop1']
                if depth >= 2:
                    ops += ['pop2']
                if model_valid and not use_sorts:
                    ops += ['get_value', 'get_value', 'get_model',
                            'get_model', 'get_py_value']
                op = rng.choice(ops)
                self.trace.append(op)
                rep.count('api_calls')
                if op == 'assert':
                    fb = world.formula(2)
                    if rng.random() < 0.1 and frames[-1]:
                        # contradict the level's last assertion
                        fb = ('not', None, (frames[-1][-1],))
                    self.trace[-1] = ('assert', B.show(fb, 80))
                    f = B.build(fb, env)
                    solver.add_assertion(f)
                    # pySMT asserts the simplified formula (documented in
                    # add_assertion): the live assertions, and hence the
                    # symbols a model must cover, are the simplified ones
                    frames[-1].append(B.describe(f.simplify()))
                    model_valid = False
                elif op == 'refused_then_retry':
                    # the solver refuses one command of an add_assertion
                    # (a legal reply to any command); the caller asserts
                    # the same formula again: the stream must stay legal
                    import json
                    nrefused += 1
                    mgr = env.formula_manager
                    news = [mgr.Symbol('rf%d_%d' % (nrefused, i))
                            for i in range(2)]
                    f = mgr.Or(news[0], mgr.Not(news[1]))
                    head, skip = [('declare-fun', 0), ('declare-fun', 1),
                                  ('assert', 0)][(self.idx // 3) % 3]
                    with open(fault, 'w') as ff:
                        json.dump({'head': head, 'skip': skip, 'reply':
                                   ['unsupported', '(error "refused")'][
                                       (self.idx // 9) % 2]}, ff)
                    self.trace[-1] = ('refused_then_retry', head, skip)
                    try:
                        solver.add_assertion(f)
                        raised = False
                    except Exception:
                        raised = True
                    fired = not os.path.exists(fault)
                    if not fired:
                        os.unlink(fault)
                    rep.count('refused_commands' if fired else
                              'refusal_not_reached')
                    if raised:
                        solver.add_assertion(f)
                    frames[-1].append(B.describe(f.simplify()))
                    model_valid = False
                elif op in ('push0', 'pop0'):
                    # zero levels: a legal no-op
                    getattr(solver, op[:-1])(0)
                    model_valid = False
                elif op in ('push1', 'push2'):
                    n = int(op[-1])
                    solver.push(n)
                    for _ in range(n):
                        frames.append([])
                    model_valid = False
                elif op in ('pop1', 'pop2'):
                    n = int(op[-1])
                    solver.pop(n)
                    for _ in range(n):
                        frames.pop()
                    model_valid = False
                elif op == 'reset':
                    solver.reset_assertions()
                    frames = [[]]
                    model_valid = False
                elif op == 'solve':
                    live = [b for fr in frames for b in fr]
                    exp = truth(live)
                    got = solver.solve()
                    rep.count('verdicts_compared')
                    if got != (exp is not None):
                        self.bad('verdict/solve', 'solve() returned %r, the '
                                 'live assertions are %s' % (
                                     got, 'sat' if exp is not None else 'unsat'))
                        ok = False
                        break
                    model_valid = bool(got)
                elif op in ('is_sat', 'is_valid', 'is_unsat'):
                    fb = world.formula(2)
                    if rng.random() < 0.3:
                        # queries that are trivial on their own: the answer
                        # still depends on the live assertions
                        p0 = world.bools[0]
                        fb = rng.choice([
                            B.Bool(True), B.Bool(False),
                            ('not', None, (B.Bool(True),)),
                            ('not', None, (B.Bool(False),)),
                            ('or', None, (p0, ('not', None, (p0,)))),
                            ('and', None, (p0, ('not', None, (p0,))))])
                        rep.count('trivial_shortcut_queries')
                    self.trace[-1] = (op, B.show(fb, 80))
                    f = B.build(fb, env)
                    live = [b for fr in frames for b in fr]
                    q = B.describe(f)
                    if op == 'is_sat':
                        exp = truth(live + [q]) is not None
                        got = solver.is_sat(f)
                    elif op == 'is_unsat':
                        exp = truth(live + [q]) is None
                        got = solver.is_unsat(f)
                    else:
                        exp = truth(live + [('not', None, (q,))]) is None
                        got = solver.is_valid(f)
                    rep.count('verdicts_compared')
                    if got != exp:
                        self.bad('verdict/' + op, '%s returned %r, truth is '
                                 '%r' % (op, got, exp))
                        ok = False
                        break
                    model_valid = False
                elif op in ('get_value', 'get_py_value'):
                    live = [b for fr in frames for b in fr]
                    syms = sorted(set().union(*[B.free_syms(b)
                                                for b in live]) or [])
                    syms = [s for s in syms if s[1][0] != 'U']
                    if not syms:
                        continue
                    if rng.random() < 0.5:
                        tb = B.Sym(*rng.choice(syms))
                    else:
                        tb = world.term_bv(1) if rng.random() < 0.5 \
                            else world.formula(1)
                        if any(s[1][0] == 'U' for s in B.free_syms(tb)) or \
                                not set(B.free_syms(tb)) <= set(syms):
                            tb = B.Sym(*rng.choice(syms))
                    self.trace[-1] = (op, B.show(tb, 60))
                    t = B.build(tb, env)
                    if op == 'get_value':
                        v = R.const_value(solver.get_value(t))
                    else:
                        v = solver.get_py_value(t)
                    # the value must be the one the solver reported
                    rep.count('values_compared')
                    reported = self.last_reported_value(log)
                    if reported is not None and not self.same_value(
                            reported, v, B.typeof(B.describe(t))):
                        self.bad('value/not-what-the-solver-said',
                                 'get_value(%s) returned %r, the solver '
                                 'replied %s' % (B.show(tb, 60), v,
                                                 reported))
                        ok = False
                        break
                elif op == 'get_model':
                    live = [b for fr in frames for b in fr]
                    model = solver.get_model()
                    rep.count('models_checked')
                    I = {}
                    syms = sorted(set().union(*[B.free_syms(b)
                                                for b in live]) or [])
                    missing = []
                    for (n, t) in syms:
                        if t[0] == 'U':
                            continue
                        s = env.formula_manager.Symbol(n, B.to_pytype(t, env))
                        if s not in model:
                            missing.append(n)
                        else:
                            I[n] = R.const_value(model.get_value(s))
                    if missing:
                        self.bad('model/symbol-missing',
                                 'get_model() misses %s which occur in the '
                                 'live assertions' % missing)
                        ok = False
                        break
                    usyms = [s for s in syms if s[1][0] == 'U']
                    if not usyms:
                        if not all(R.evaluate(b, I) for b in live):
                            self.bad('model/does-not-satisfy',
                                     'model %s does not satisfy the live '
                                     'assertions' % I)
                            ok = False
                            break
            if ok and model_valid and not use_sorts and \
                    self.idx % 6 == 1:
                # last step: the value of a symbol the solver was never
                # told about (it does not occur in any simplified assertion)
                rep.count('unasserted_symbol_queries')
                self.trace.append(('get_value', 'zz_unasserted'))
                try:
                    z = env.formula_manager.Symbol('zz_unasserted')
                    solver.get_value(z)
                except Exception as e:
                    self.bad('get_value/unasserted-symbol',
                             'get_value of a symbol that occurs in no '
                             'assertion sends an illegal command and raises '
                             '%r' % e)
        except SolverReturnedUnknownResultError as e:
            self.bad('raises/unknown', 'solver said unknown: %r' % e)
            ok = False
        except Exception as e:
            self.bad('raises/%s/after-%s' % (
                common.exc_name(e), self.prev_op()),
                'legal API sequence raised %r at %s' % (
                    e, common.tb_short(e)))
            ok = False
        finally:
            try:
                if solver is not None:
                    solver.exit()
            except Exception:
                pass
        # ---- the command stream as judged by the strict solver
        entries = read_log(log)
        ncmd = sum(1 for e in entries if e.get('ev') == 'cmd')
        rep.count('commands_logged', ncmd)
        for e in entries:
            if e.get('ev') == 'reply' and e.get('legal') is False:
                if 'zz_unasserted' in e.get('cmd', ''):
                    continue     # reported above, by mechanism
                self.bad('illegal-command/%s' % e.get('note'),
                         'the solver rejected %s with %s' % (
                             e.get('cmd', '')[:160], e.get('reply')))
                ok = False
                break
        if not entries:
            rep.count('empty_logs')
        for pth in (log, log + '.fault'):
            try:
                os.unlink(pth)
            except OSError:
                pass
        rep.case(key=('h', rep.shard, self.idx),
                 sample=str(self.trace[:10]) if self.idx % 37 == 0 else None)
        return ok

    def prev_op(self):
        for t in reversed(self.trace[:-1]):
            return t[0] if isinstance(t, tuple) else t
        return 'start'

    def last_reported_value(self, log):
        for e in reversed(read_log(log)):
            if e.get('ev') == 'reply' and e.get('cmd', '').startswith(
                    '(get-value'):
                return e.get('reply')
        return None

    def same_value(self, reply, v, t):
        from .refsolver import print_value
        try:
            if isinstance(v, bool) and t != B.BOOL:
                return False
            exp = print_value(v, t)
        except Exception:
            return True
        return reply.rstrip(')').rstrip().endswith(exp)


def shortcut_cases(rep, rng, n):
    """Factory shortcuts is_sat / is_valid / is_unsat / get_model."""
    import pysmt.logics as L
    for j in range(n):
        if rep.out_of_time():
            break
        env = common.fresh_env()
        world = World(rng)
        log = os.path.join(logdir(), 's_%d_%d_%d.log' % (os.getpid(),
                                                         rep.shard, j))
        if os.path.exists(log):
            os.unlink(log)
        env.factory.add_generic_solver(
            'refs', [PY, REFSOLVER, '--log', log], list(L.PYSMT_LOGICS))
        fb = world.formula(3)
        f = B.build(fb, env)
        q = B.describe(f)
        which = ['is_sat', 'is_valid', 'is_unsat', 'get_model'][j % 4]
        rep.case(key=('shortcut', which, rep.shard, j))
        try:
            with warnings.catch_warnings():
                warnings.simplefilter('ignore')
                if which == 'is_sat':
                    got, exp = env.factory.is_sat(f, solver_name='refs'), \
                        truth([q]) is not None
                elif which == 'is_unsat':
                    got, exp = env.factory.is_unsat(f, solver_name='refs'), \
                        truth([q]) is None
                elif which == 'is_valid':
                    got, exp = env.factory.is_valid(f, solver_name='refs'), \
                        truth([('not', None, (q,))]) is None
                else:
                    m = env.factory.get_model(f, solver_name='refs')
                    exp = truth([q]) is not None
                    got = m is not None
                    if m is not None:
                        I = {}
                        for (n_, t) in B.free_syms(q):
                            if t[0] == 'U':
                                I = None
                                break
                            s = env.formula_manager.Symbol(
                                n_, B.to_pytype(t, env))
                            I[n_] = R.const_value(m.get_value(s))
                        if I is not None and not R.evaluate(q, I):
                            rep.violation(
                                'C17/shortcut/get_model/does-not-satisfy',
                                'get_model(%s) = %s' % (B.show(q, 100), I))
            rep.count('shortcuts_compared')
            if got != exp:
                rep.violation('C17/shortcut/%s/verdict' % which,
                              '%s(%s) = %r, truth %r' % (
                                  which, B.show(q, 100), got, exp))
        except Exception as e:
            rep.violation('C17/shortcut/%s/raises/%s' % (
                which, common.exc_name(e)), '%s(%s) raised %r at %s' % (
                    which, B.show(q, 100), e, common.tb_short(e)))
        for e in read_log(log):
            if e.get('ev') == 'reply' and e.get('legal') is False:
                rep.violation('C17/shortcut/%s/illegal-command/%s' % (
                    which, e.get('note')), 'the solver rejected %s' % (
                        e.get('cmd', '')[:160]))
                break
        try:
            os.unlink(log)
        except OSError:
            pass


def run(rep):
    rng = random.Random(rep.seed * 6700417 % (2 ** 31) + rep.shard)
    n = 70 if rep.tier == 'quick' else 2500
    j = 0
    rep.share(0.85)
    while j < n and not rep.out_of_time():
        if rep.only and rep.only != 'history':
            break
        h = History(rep, rng, j)
        h.run(rng.randint(4, 25))
        j += 1
    if j < n:
        rep.notes.append('truncated at %d of %d histories' % (j, n))
    rep.count('histories', j)
    rep.share(1.0)
    if not rep.only or rep.only == 'shortcuts':
        shortcut_cases(rep, rng, 8 if rep.tier == 'quick' else 400)


def replay(case, rep):
    run(rep)
