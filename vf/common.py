"""Shared infrastructure: repo binding, reporter, shrinking, evidence."""
import json
import os
import sys
import time
import traceback

VERIF = os.path.dirname(os.path.dirname(os.path.abspath(__file__)))
REPO = os.environ.get('VERIF_REPO', '/repo')
OUT = os.path.join(VERIF, 'out')
DEPS = os.path.join(VERIF, '.deps')


def bind_repo():
    """Make sure `import pysmt` is the working tree under REPO."""
    if sys.path[0] != REPO:
        sys.path.insert(0, REPO)
    if os.path.isdir(DEPS) and DEPS not in sys.path:
        sys.path.append(DEPS)
    import pysmt
    assert os.path.abspath(pysmt.__file__).startswith(
        os.path.abspath(REPO) + os.sep), \
        'pysmt imported from %s, expected %s' % (pysmt.__file__, REPO)
    return pysmt


def fresh_env():
    from pysmt.environment import reset_env
    env = reset_env()
    env.enable_infix_notation = True
    return env


class Inconclusive(Exception):
    pass


class Reporter(object):
    """Collects what one shard observed."""

    def __init__(self, prop, tier, seed, shard=0, nshards=1):
        self.prop = prop
        self.tier = tier
        self.seed = seed
        self.shard = shard
        self.nshards = nshards
        self.t0 = time.time()
        self.counters = {}
        self.violations = []      # dicts: key, what, case
        self.samples = []
        self.distinct = set()
        self.evaluations = 0
        self.notes = []
        self.inconclusive = []
        self.deadline = None

    # -- counting -----------------------------------------------------------
    def count(self, name, n=1):
        self.counters[name] = self.counters.get(name, 0) + n

    def case(self, key=None, sample=None, nontrivial=True):
        """Register one explored case; key identifies distinctness."""
        self.evaluations += 1
        if nontrivial and key is not None:
            self.distinct.add(key if isinstance(key, (str, int))
                              else hash(key))
        if sample is not None and len(self.samples) < 6:
            self.samples.append(sample)

    def out_of_time(self):
        return self.deadline is not None and time.time() > self.deadline

    def share(self, upto):
        """Sections of a workload share the time budget: the section that
        starts now may run until the fraction `upto` of the whole budget is
        used (no section can starve the ones after it)."""
        full = getattr(self, 'full_deadline', None)
        if full is None:
            return
        self.deadline = self.t0 + (full - self.t0) * upto

    # -- violations ---------------------------------------------------------
    def violation(self, key, what, case=None):
        """key: mechanism key (string). what: human description."""
        for v in self.violations:
            if v['key'] == key:
                v['n'] += 1
                return
        self.violations.append({'key': key, 'what': what, 'case': case,
                                'n': 1})

    def inconclusive_because(self, why):
        self.inconclusive.append(why)

    def dump(self):
        return {
            'prop': self.prop, 'tier': self.tier, 'seed': self.seed,
            'shard': self.shard, 'nshards': self.nshards,
            'counters': self.counters, 'violations': self.violations,
            'samples': self.samples,
            'distinct': sorted(str(x) for x in self.distinct)
            if len(self.distinct) < 200000 else None,
            'ndistinct': len(self.distinct),
            'evaluations': self.evaluations, 'notes': self.notes,
            'inconclusive': self.inconclusive,
            'wall_s': time.time() - self.t0,
        }


def load_known():
    p = os.path.join(VERIF, 'known_findings.json')
    if not os.path.exists(p):
        return {'findings': [], 'fixed': []}
    with open(p) as f:
        return json.load(f)


# --------------------------------------------------------------------------
# shrinking of blueprints
# --------------------------------------------------------------------------
def _paths(bp, path=()):
    yield path, bp
    for i, c in enumerate(bp[2]):
        for x in _paths(c, path + (i,)):
            yield x


def _replace(bp, path, new):
    if not path:
        return new
    op, pl, kids = bp
    i = path[0]
    return (op, pl, kids[:i] + (_replace(kids[i], path[1:], new),)
            + kids[i + 1:])


def shrink(bp, fails, budget=250):
    """Greedy delta-debugging over blueprints.

    fails(bp) -> truthy (e.g. a key) iff the (well-typed) blueprint still
    exhibits the violation.  Returns a (locally) minimal failing blueprint."""
    from . import bp as B
    from . import gen as G
    tries = [0]

    def F(x):
        if tries[0] >= budget:
            return False
        tries[0] += 1
        try:
            B.typeof(x)
        except B.IllTyped:
            return False
        try:
            return fails(x)
        except Exception:
            return False

    changed = True
    while changed and tries[0] < budget:
        changed = False
        # 1. hoist: any proper subterm that fails on its own
        subs = [s for p, s in _paths(bp) if p]
        subs.sort(key=B.size)
        for s in subs:
            if B.size(s) < B.size(bp) and F(s):
                bp = s
                changed = True
                break
        if changed:
            continue
        # 2. replace a subterm by something simpler of the same type
        tm = {}
        for p, s in sorted(_paths(bp), key=lambda ps: -len(ps[0])):
            if not p or not s[2]:
                continue
            try:
                t = B.typeof(s, tm)
            except B.IllTyped:
                continue
            cands = []
            for c in s[2]:
                try:
                    if B.typeof(c, tm) == t:
                        cands.append(c)
                except B.IllTyped:
                    pass
            cands.append(B.Sym(G.sym_name(t) + '0', t))
            for v in G.consts_of(t)[:2]:
                cands.append(G.const_bp(t, v))
            for c in cands:
                nb = _replace(bp, p, c)
                if B.size(nb) < B.size(bp) and F(nb):
                    bp = nb
                    changed = True
                    break
            if changed:
                break
    return bp


def shape_key(bp, depth=1):
    """root operator with the operators of its children: eq(arrayval,arrayval)"""
    op, pl, kids = bp
    if depth <= 0 or not kids:
        return op
    return '%s(%s)' % (op, ','.join(shape_key(k, depth - 1) for k in kids))


def exc_name(e):
    return type(e).__name__


def tb_short(e, n=3):
    tb = traceback.extract_tb(e.__traceback__)
    return ' <- '.join('%s:%d' % (os.path.basename(f.filename), f.lineno)
                       for f in tb[-n:][::-1])


# --------------------------------------------------------------------------
# the repository's own test-suite as one more monitored workload
# --------------------------------------------------------------------------
def run_repo_tests_monitored(rep, prefixes, workers=4, timeout=900):
    """Run pysmt/test with vf/pytest_plugin.py (create_node monitor and
    contracts on) and turn recorded problems whose kind starts with one of
    `prefixes` into violations of rep.prop."""
    import glob
    import subprocess
    os.makedirs(OUT, exist_ok=True)
    base = os.path.join(OUT, 'plugin_%s_%d.json' % (rep.prop, os.getpid()))
    for f in glob.glob(base + '.*'):
        os.unlink(f)
    env = dict(os.environ, VF_PLUGIN_OUT=base,
               PYTHONPATH='%s:%s:%s' % (REPO, VERIF, DEPS))
    cmd = [sys.executable, '-m', 'pytest', '-q', '-p', 'no:cacheprovider',
           '-p', 'vf.pytest_plugin', '-n', str(workers), 'pysmt/test']
    try:
        r = subprocess.run(cmd, cwd=REPO, env=env, stdout=subprocess.PIPE,
                           stderr=subprocess.STDOUT, timeout=timeout)
        tail = r.stdout.decode('utf-8', 'replace').strip().splitlines()[-1:]
    except subprocess.TimeoutExpired:
        rep.notes.append('monitored test-suite run timed out')
        return
    rep.notes.append('repository test-suite under monitors: %s' % tail)
    files = glob.glob(base + '.*')
    if not files:
        rep.notes.append('monitored test-suite run left no report')
        return
    for f in files:
        with open(f) as fh:
            d = json.load(fh)
        os.unlink(f)
        rep.count('testsuite_nodes_created', d['created'])
        rep.count('testsuite_nodes_typed', d['nodes_typed'])
        for k, v in d['counts'].items():
            rep.count('testsuite_' + k, v)
        for p in d['problems']:
            if any(p[0].startswith(x) for x in prefixes):
                rep.violation('%s/testsuite/%s' % (rep.prop, p[0]),
                              'while running %s: %s %s' % (
                                  p[-1], p[1], p[2] if len(p) > 3 else ''),
                              None)
        for name, info in d['pending']:
            if any(name.startswith(x) for x in prefixes):
                rep.violation('%s/testsuite/%s' % (rep.prop, name), info,
                              None)
    rep.case(key='repo-testsuite')
