"""pytest plugin: run the repository's own test-suite with the M6 monitors on
(create_node wrapper: C03 typing / C04 shadow hash-consing; icontract
post-conditions of simplify / substitute).  Usage:

  VF_PLUGIN_OUT=file.json python -m pytest -p vf.pytest_plugin pysmt/test
"""
import json
import os

from . import monitors as M


def pytest_configure(config):
    M.NODE_MONITOR.install()
    M.install_simplify_contract()
    M.install_substitute_contract()


def pytest_runtest_setup(item):
    M.CURRENT_TEST[0] = item.nodeid


def pytest_sessionfinish(session, exitstatus):
    out = os.environ.get('VF_PLUGIN_OUT')
    if not out:
        return
    out += '.' + os.environ.get('PYTEST_XDIST_WORKER', 'main')
    mon = M.NODE_MONITOR
    probs = []
    for p in mon.problems[:200]:
        probs.append([str(x)[:400] for x in p])
    pend = [[name, str(info)[:400]] for name, info in M.PENDING[:200]]
    with open(out, 'w') as f:
        json.dump({'created': mon.created, 'nodes_typed': mon.nodes_typed,
                   'problems': probs, 'n_problems': len(mon.problems),
                   'pending': pend, 'n_pending': len(M.PENDING),
                   'counts': M.COUNTS, 'exitstatus': int(exitstatus)}, f)
