"""C10 - normal-form rewriters and Boolean quantifier elimination."""
import random
import warnings

from . import bp as B
from . import gen as G
from . import judge as J
from . import monitors as M
from . import common
from . import refeval as R
from .c04 import canon

PROP = 'C10'
CONN = ('and', 'or', 'not', 'implies', 'iff')


def is_bool_struct(b, tm):
    op = b[0]
    if op in CONN or op in ('forall', 'exists'):
        return True
    if op == 'ite':
        return B.typeof(b, tm) == B.BOOL
    return False


def shape_nnf(b, tm):
    """negations only on atoms; only and/or/quantifiers above atoms."""
    op, pl, kids = b
    if op in ('and', 'or', 'forall', 'exists'):
        for c in kids:
            r = shape_nnf(c, tm)
            if r:
                return r
        return None
    if op == 'not':
        if is_bool_struct(kids[0], tm):
            return 'negation above %s' % kids[0][0]
        return None
    if op in ('implies', 'iff') or (op == 'ite'
                                    and B.typeof(b, tm) == B.BOOL):
        return 'connective %s left' % op
    return None     # atom or constant


def shape_prenex(b, tm):
    while b[0] in ('forall', 'exists'):
        b = b[2][0]

    def qf_bool(x):
        if x[0] in ('forall', 'exists'):
            return False
        if is_bool_struct(x, tm):
            return all(qf_bool(c) for c in x[2])
        return True     # atoms are not inspected (Boolean positions only)
    return None if qf_bool(b) else 'quantifier inside the matrix'


def shape_aig(b, tm):
    op, pl, kids = b
    if op in ('and', 'not', 'forall', 'exists'):
        for c in kids:
            r = shape_aig(c, tm)
            if r:
                return r
        return None
    if op in ('or', 'implies', 'iff') or (op == 'ite'
                                          and B.typeof(b, tm) == B.BOOL):
        return 'connective %s left' % op
    return None


def shape_qf(b, tm):
    return None if B.is_qf(b) else 'quantifier left'


def quantifiers_in_bool_positions(b, tm):
    def go(x, in_term):
        if x[0] in ('forall', 'exists'):
            if in_term:
                return False
            return go(x[2][0], False)
        if is_bool_struct(x, tm):
            return all(go(c, in_term) for c in x[2])
        return all(go(c, True) for c in x[2])
    return go(b, False)


class Checker(object):
    def __init__(self, rep):
        self.rep = rep
        self.rng = random.Random(rep.seed * 32452843 + rep.shard)
        self.sb = J.ShrinkBudget(rep, 30)
        self.reused = {}
        self.keep_env = None

    def apply(self, proc, f, env):
        from pysmt import rewritings as RW
        from pysmt.solvers.qelim import (ShannonQuantifierEliminator,
                                         SelfSubstitutionQuantifierEliminator)
        mgr = env.formula_manager
        if proc.endswith('.reused'):
            # one converter object for all the formulas of an environment
            key = (id(env), proc)
            conv = self.reused.get(key)
            if conv is None:
                self.reused.clear()
                self.keep_env = env
                conv = {'prenex.reused': RW.PrenexNormalizer,
                        'nnf.reused': RW.NNFizer, 'aig.reused': RW.AIGer,
                        'times_distributor.reused': RW.TimesDistributor}[
                    proc](env)
                self.reused[key] = conv
            self.rep.count('reused_converter_calls')
            if proc == 'prenex.reused':
                return conv.normalize(f)
            if proc == 'times_distributor.reused':
                return conv.walk(f)
            return conv.convert(f)
        if proc == 'nnf':
            return RW.nnf(f, env)
        if proc == 'prenex':
            return RW.prenex_normal_form(f, env)
        if proc == 'aig':
            return RW.aig(f, env)
        if proc == 'times_distributor':
            return RW.TimesDistributor(env).walk(f)
        if proc == 'conjunctive_partition':
            return mgr.And(list(RW.conjunctive_partition(f)))
        if proc == 'disjunctive_partition':
            return mgr.Or(list(RW.disjunctive_partition(f)))
        if proc == 'propagate_toplevel':
            return RW.propagate_toplevel(f, env)
        if proc == 'propagate_toplevel_nosimp':
            return RW.propagate_toplevel(f, env, do_simplify=False)
        if proc == 'qelim_shannon':
            return ShannonQuantifierEliminator(env).eliminate_quantifiers(f)
        if proc == 'qelim_selfsub':
            return SelfSubstitutionQuantifierEliminator(
                env).eliminate_quantifiers(f)
        if proc == 'factory_qelim_shannon':
            return env.factory.qelim(f, solver_name='shannon')
        if proc == 'factory_qelim_selfsub':
            return env.factory.qelim(f, solver_name='selfsub')
        raise ValueError(proc)

    SHAPES = {'nnf': shape_nnf, 'prenex': shape_prenex, 'aig': shape_aig,
              'nnf.reused': shape_nnf, 'prenex.reused': shape_prenex,
              'aig.reused': shape_aig,
              'qelim_shannon': shape_qf, 'qelim_selfsub': shape_qf,
              'factory_qelim_shannon': shape_qf,
              'factory_qelim_selfsub': shape_qf}

    def judge_once(self, proc, b):
        from pysmt.environment import get_env
        env = get_env()
        try:
            with warnings.catch_warnings():
                warnings.simplefilter('ignore')
                f = B.build(b, env)
        except Exception as e:
            return 'build', repr(e)
        fb = canon(B.describe(f))
        tm = {}
        if not proc.startswith('times_distributor') and \
                B.typeof(fb, tm) != B.BOOL:
            return 'build', 'outside fragment (not Boolean)'
        if proc.startswith('prenex') and \
                not quantifiers_in_bool_positions(fb, tm):
            return 'build', 'outside fragment'
        try:
            with warnings.catch_warnings():
                warnings.simplefilter('ignore')
                r = self.apply(proc, f, env)
        except Exception as e:
            return 'exc:' + common.exc_name(e), '%s(%s) raised %r at %s' % (
                proc, B.show(fb, 150), e, common.tb_short(e))
        if r is None:
            return 'none', '%s(%s) returned None' % (proc, B.show(fb, 150))
        try:
            rb = canon(B.describe(r))
            if B.typeof(rb) != B.typeof(fb, tm):
                return 'type', 'type changed'
        except (B.IllTyped, B.Undescribable) as e:
            return 'type', 'ill-typed result: %s' % e
        sh = self.SHAPES.get(proc)
        if sh is not None:
            why = sh(rb, {})
            if why:
                return 'shape', '%s(%s) = %s: %s' % (
                    proc, B.show(fb, 150), B.show(rb, 150), why)
            self.rep.count('shapes_checked')
        v, info = J.compare(fb, rb, self.rng, n_samples=20,
                            seed=self.rep.seed)
        if v == 'diff':
            return 'value', '%s(%s) = %s; under %s (D=%s): %s vs %s' % (
                proc, B.show(fb, 150), B.show(rb, 150), info['I'],
                info['D'], info['v1'], info['v2'])
        if v == 'eq':
            self.rep.count('equivalences_compared')
            self.rep.count('proc_' + proc)
            self.rep.count('interpretations', info['n'])
        return None, None

    def check(self, proc, b, j):
        rep = self.rep
        kind, info = self.judge_once(proc, b)
        rep.case(key=hash((proc, b)), sample='%s: %s' % (proc, B.show(b, 120))
                 if j % 401 == 0 else None)
        if kind is None:
            return
        if kind == 'build':
            rep.count('build_rejected_or_outside_fragment')
            return

        def fails(x):
            return self.judge_once(proc, x)[0] == kind
        key, m = self.sb.classify(PROP, proc, kind, b, fails)
        what = info
        if m is not None and m is not b:
            what = 'minimal: %s' % (self.judge_once(proc, m)[1],)
        rep.violation(key, '%s: %s' % (kind, what), {
            'bp': B.to_json(m if m is not None else b), 'proc': proc,
            'kind': kind})


def binder_bodies(b):
    out = []
    for s_ in B.subterms(b):
        if s_[0] in ('forall', 'exists') and s_[2][0] not in out:
            out.append(s_[2][0])
    return out


def bool_cfgs():
    base = dict(quant_bool_pos_only=True, share=0.35)
    return [
        G.Cfg(max_depth=5, **base),
        G.Cfg(max_depth=4, strings=False, arrays=False, **base),
        G.Cfg(max_depth=5, uf=False, bv=False, qtypes=[B.BOOL, B.INT],
              **base),
        G.Cfg(max_depth=6, arith=False, strings=False, arrays=False,
              uf=False, custom=False, qtypes=[B.BOOL, B.BV(2)], **base),
        G.Cfg(max_depth=4, bool_select=False, **base),
    ]


def special_bool():
    p, q, r_ = (B.Sym('p0', B.BOOL), B.Sym('p1', B.BOOL),
                B.Sym('p2', B.BOOL))
    i0, i1 = B.Sym('i0', B.INT), B.Sym('i1', B.INT)
    le = ('le', None, (i0, i1))
    N = lambda x: ('not', None, (x,))
    ite = ('ite', None, (p, q, r_))
    out = [
        N(ite), N(N(ite)), ('iff', None, (ite, le)), N(('iff', None, (p, q))),
        N(('implies', None, (p, ('and', None, (q, le))))),
        ('ite', None, (le, N(ite), ('iff', None, (p, q)))),
        N(('ite', None, (('iff', None, (p, q)), le, N(r_)))),
        N(('forall', (('p0', B.BOOL),), (('or', None, (p, q)),))),
        ('and', None, (('forall', (('p0', B.BOOL),), (('or', None, (p, q)),)),
                       ('exists', (('p0', B.BOOL),), (
                           ('and', None, (p, q)),)))),
        ('or', None, (p, ('forall', (('p0', B.BOOL),), (p,)))),
        ('iff', None, (('forall', (('p1', B.BOOL),), (('or', None, (p, q)),)),
                       ('exists', (('p1', B.BOOL),), (
                           ('and', None, (p, q)),)))),
        ('ite', None, (('exists', (('i0', B.INT),), (le,)), p,
                       ('forall', (('i0', B.INT),), (le,)))),
        ('forall', (('p0', B.BOOL),), (
            ('exists', (('p0', B.BOOL),), (('iff', None, (p, q)),)),)),
        ('implies', None, (('exists', (('i1', B.INT),), (le,)),
                           ('exists', (('i1', B.INT),), (N(le),)))),
        ('select', None, (B.Sym('ab0', B.ARR(B.INT, B.BOOL)), i0)),
        N(('select', None, (B.Sym('ab0', B.ARR(B.INT, B.BOOL)), i0))),
        ('and', None, (p, ('select', None, (
            B.Sym('ab0', B.ARR(B.INT, B.BOOL)), i0)))),
        B.App('fb', B.FUN(B.BOOL, (B.BOOL,)), (('and', None, (p, q)),)),
        N(B.App('fb', B.FUN(B.BOOL, (B.BOOL,)), (('and', None, (p, q)),))),
    ]
    # quantifiers binding several variables of which only some clash with a
    # sibling's free or bound variables (partial alpha-renaming)
    PB, QB = ('p0', B.BOOL), ('p1', B.BOOL)
    RB = ('p2', B.BOOL)
    out += [
        ('and', None, (p, ('forall', (PB, QB), (('or', None, (p, q, r_)),)))),
        ('or', None, (q, ('exists', (PB, QB), (('and', None, (p, q)),)), p)),
        ('and', None, (('forall', (PB, QB), (('or', None, (p, q)),)),
                       ('exists', (QB, RB), (('and', None, (q, r_)),)))),
        ('or', None, (('forall', (PB, QB, RB), (('or', None, (p, N(q), r_)),
                                               )),
                      ('iff', None, (r_, q)))),
        ('implies', None, (('exists', (PB, QB), (('iff', None, (p, q)),)),
                           ('forall', (QB, PB), (('or', None, (p, q, r_)),)))),
        ('and', None, (('le', None, (i0, i1)),
                       ('forall', (('i0', B.INT), ('p1', B.BOOL)),
                        (('or', None, (le, q)),)))),
        ('and', None, (('forall', (('i0', B.INT), ('i1', B.INT)), (le,)),
                       ('exists', (('i1', B.INT), ('p0', B.BOOL)),
                        (('and', None, (le, p)),)), p)),
        # a block renamed only in part, then a later sibling binding the
        # un-renamed variable again
        ('and', None, (p, ('exists', (PB, QB), (('and', None, (p, q)),)),
                       ('forall', (QB,), (('or', None, (q, r_)),)))),
        ('or', None, (p, ('forall', (PB, QB), (('or', None, (p, N(q))),)),
                      ('exists', (QB,), (('and', None, (q, r_)),)),
                      ('exists', (QB, RB), (('iff', None, (q, r_)),)))),
        ('and', None, (le, ('exists', (('i0', B.INT), ('i1', B.INT)), (
            ('lt', None, (i0, i1)),)),
            ('forall', (('i1', B.INT),), (('le', None, (i0, i1)),)))),
    ]
    # directly nested binders, of the same kind and alternating, whose
    # body mentions every variable (and the same bodies under other
    # prefixes)
    body = ('or', None, (('and', None, (p, q)), ('iff', None, (q, r_)), le))
    ib = ('lt', None, (i0, ('plus', None, (i1, B.Int(1)))))
    for kinds in (('exists', 'exists'), ('forall', 'forall'),
                  ('exists', 'forall'), ('forall', 'exists'),
                  ('exists', 'exists', 'exists'),
                  ('forall', 'exists', 'exists'),
                  ('exists', 'exists', 'forall')):
        for (vs, bd) in ((((('p0', B.BOOL)), ('p1', B.BOOL), ('p2', B.BOOL)),
                          body),
                         ((('i0', B.INT), ('i1', B.INT), ('p0', B.BOOL)),
                          ('and', None, (ib, p)))):
            f = bd
            for kname, v in zip(reversed(kinds), reversed(vs[:len(kinds)])):
                f = (kname, (v,), (f,))
            out.append(f)
            out.append(('and', None, (r_, f)))
            out.append(N(f))
    return out


def propagate_specials():
    """Equalities whose representative is bound by a quantifier in every
    kind of position (Boolean, nested, inside a theory atom)."""
    out = []
    for t, lt_, one, zero in ((B.INT, 'lt', B.Int(1), B.Int(0)),
                              (B.BV(3), 'bvult', B.BVc(1, 3), B.BVc(0, 3))):
        a, b, c = (B.Sym('pa', t), B.Sym('pb', t), B.Sym('pc', t))
        A, Bv, Cv = ('pa', t), ('pb', t), ('pc', t)
        L = lambda x, y: (lt_, None, (x, y))
        E = lambda x, y: ('eq', None, (x, y))
        for (s1, s2, V) in ((b, a, A), (a, b, Bv), (b, a, Bv), (a, b, A)):
            q = ('exists', (V,), (L(b, a),))
            out += [
                ('and', None, (E(s1, s2), q)),
                ('and', None, (E(s1, s2), ('forall', (Cv,), (
                    ('or', None, (q, E(c, a))),)))),
                ('and', None, (E(s1, s2), E(('ite', None, (q, one, zero)),
                                            one))),
                ('and', None, (E(s1, s2), E(c, a), L(zero, ('ite', None, (
                    ('forall', (V,), (('not', None, (L(a, b),)),)), one,
                    zero))))),
            ]
    return out


def propagate_cases(rng, n):
    """Conjunctions of var/const equalities of every sort, with chains and
    conflicts, plus unrelated conjuncts."""
    out = []
    sorts = [B.INT, B.REAL, B.BV(3), B.STRING, G.US, B.BV(8)]
    for _ in range(n):
        t = rng.choice(sorts)
        syms = [B.Sym('%s%d' % (G.sym_name(t), k), t) for k in range(4)]
        consts = [G.const_bp(t, v) for v in G.consts_of(t)[:4]]
        atoms = []
        for _ in range(rng.randint(1, 6)):
            a = rng.choice(syms + consts)
            b = rng.choice(syms + consts)
            atoms.append(('eq', None, (a, b)))
        g = G.Gen(rng, G.Cfg(max_depth=2, quant=False))
        for _ in range(rng.randint(0, 2)):
            atoms.append(g.term(B.BOOL))
        if t in (B.INT, B.REAL) and rng.random() < 0.5:
            atoms.append(('le', None, (rng.choice(syms), rng.choice(
                syms + consts))))
        if t[0] in ('Int', 'Real', 'BV') and rng.random() < 0.4:
            # a quantified conjunct that binds one of the symbols and
            # mentions another one: propagating "other = bound name" into it
            # must not capture
            v = rng.choice(syms)
            o = rng.choice(syms + consts)
            rel = rng.choice(['eq', 'neq', 'lt'])
            if t[0] == 'BV':
                body = {'eq': ('eq', None, (v, o)),
                        'neq': ('not', None, (('eq', None, (v, o)),)),
                        'lt': ('bvult', None, (o, v))}[rel]
            else:
                body = {'eq': ('eq', None, (v, o)),
                        'neq': ('not', None, (('eq', None, (v, o)),)),
                        'lt': ('lt', None, (o, v))}[rel]
            if rng.random() < 0.5:
                body = ('or', None, (body, B.Sym('p0', B.BOOL)))
            qf_ = (rng.choice(['exists', 'forall']), (v[1],), (body,))
            if rng.random() < 0.3:
                # the quantifier sits inside a theory atom (no quantifier
                # in a Boolean position anywhere)
                one = consts[1] if len(consts) > 1 else consts[0]
                qf_ = ('eq', None, (('ite', None, (qf_, one, consts[0])),
                                    one))
            if rng.random() < 0.4:
                # the binder sits below another quantifier / connective
                w = rng.choice([s_ for s_ in syms if s_ is not v] or syms)
                qf_ = (rng.choice(['exists', 'forall']), (w[1],), (
                    ('or', None, (qf_, ('eq', None, (w, o)))),))
            atoms.append(qf_)
        if t == B.INT and rng.random() < 0.25:
            # an array literal whose indexes are constants that also occur
            # in the equalities (they must stay constants)
            lit = ('arrayval', B.INT, (B.Int(-3), consts[0], consts[1],
                                       consts[1], consts[0]))
            atoms.append(rng.choice([
                ('eq', None, (lit, B.Sym('aArrayIntInt_0', G.A_II))),
                ('le', None, (('select', None, (lit, rng.choice(syms))),
                              rng.choice(syms + consts)))]))
        if rng.random() < 0.3:
            # a nested conjunction and a non-toplevel equality
            atoms.append(('and', None, (('eq', None, (syms[0], syms[1])),
                                        ('or', None, (
                                            ('eq', None, (syms[2], syms[3])),
                                            B.Sym('p0', B.BOOL))))))
        rng.shuffle(atoms)
        out.append(('and', None, tuple(atoms)) if len(atoms) > 1
                   else atoms[0])
    return out


def sum_product_cases(rng, n):
    out = []
    for _ in range(n):
        t = rng.choice([B.INT, B.REAL])
        g = G.Gen(rng, G.Cfg(max_depth=4, quant=False, uf=False,
                             arrays=False, strings=False, bv=False, div=False))

        def tm(d):
            if d <= 0 or rng.random() < 0.25:
                return g.leaf(t)
            op = rng.choice(['plus', 'times', 'minus', 'plus', 'times',
                             'ite'])
            if op == 'minus':
                return ('minus', None, (tm(d - 1), tm(d - 1)))
            if op == 'ite':
                return ('ite', None, (g.term(B.BOOL, 1), tm(d - 1),
                                      tm(d - 1)))
            return (op, None, tuple(tm(d - 1)
                                    for _ in range(rng.randint(2, 3))))
        x = tm(3)
        if rng.random() < 0.5:
            x = (rng.choice(['le', 'lt', 'eq']), None, (x, tm(2)))
        out.append(x)
    return out


def qelim_cases(rng, n, theory_atoms):
    out = []
    for _ in range(n):
        if theory_atoms:
            cfg = G.Cfg(max_depth=4, quant=True, qtypes=[B.BOOL],
                        quant_bool_pos_only=True, share=0.3)
        else:
            cfg = G.Cfg(max_depth=5, quant=True, qtypes=[B.BOOL], arith=False,
                        bv=False, strings=False, arrays=False, uf=False,
                        custom=False, share=0.3)
        g = G.Gen(rng, cfg)
        body = g.term(B.BOOL)
        nv = rng.randint(1, 4)
        vs = tuple(('p%d' % k, B.BOOL) for k in rng.sample(range(5), nv))
        q = (rng.choice(['forall', 'exists']), vs, (body,))
        if rng.random() < 0.4:
            q = (rng.choice(['and', 'or', 'implies']), None,
                 (q, g.term(B.BOOL, 2)))
        if rng.random() < 0.3:
            q = ('not', None, (q,))
        out.append(q)
    return out


def run(rep):
    M.NODE_MONITOR.install()
    ck = Checker(rep)
    rng = ck.rng
    quick = rep.tier == 'quick'
    common.fresh_env()
    j = 0
    only = rep.only

    def want(p):
        return not only or only == p

    if rep.shard == 0:
        for b in special_bool():
            for proc in ('nnf', 'prenex', 'aig'):
                if want(proc):
                    ck.check(proc, b, j)
                    j += 1
        for b in special_bool():
            for proc in ('nnf.reused', 'prenex.reused', 'aig.reused'):
                for x in [b] + binder_bodies(b):
                    if want(proc):
                        ck.check(proc, x, j)
                        j += 1
    n = 200 if quick else 30000
    cfgs = bool_cfgs()
    rep.share(0.45)
    for k in range(n):
        if rep.out_of_time():
            rep.notes.append('boolean workload truncated at %d' % k)
            break
        if k % 150 == 0:
            common.fresh_env()
        g = G.Gen(rng, cfgs[k % len(cfgs)])
        b = g.term(B.BOOL)
        for proc in ('nnf', 'prenex', 'aig', 'conjunctive_partition',
                     'disjunctive_partition'):
            if want(proc):
                ck.check(proc, b, j)
                j += 1
        # the same through converter objects that live as long as the
        # environment, followed by the bodies of the formula's binders
        # (results memoised for the whole formula are asked for again)
        for proc in ('nnf.reused', 'prenex.reused', 'aig.reused'):
            for x in ([b] + binder_bodies(b)[:2]) if k % 2 == 0 else ():
                if want(proc):
                    ck.check(proc, x, j)
                    j += 1
    rep.share(0.55)
    for b in sum_product_cases(rng, 100 if quick else 15000):
        if rep.out_of_time():
            break
        for proc in ('times_distributor', 'times_distributor.reused'):
            if want(proc):
                ck.check(proc, b, j)
                j += 1
    common.fresh_env()
    rep.share(0.7)
    if rep.shard == 0:
        for b in propagate_specials():
            for proc in ('propagate_toplevel', 'propagate_toplevel_nosimp'):
                if want(proc):
                    ck.check(proc, b, j)
                    j += 1
    for b in propagate_cases(rng, 120 if quick else 20000):
        if rep.out_of_time():
            break
        for proc in ('propagate_toplevel', 'propagate_toplevel_nosimp'):
            if want(proc):
                ck.check(proc, b, j)
                j += 1
    common.fresh_env()
    rep.share(0.88)
    for b in qelim_cases(rng, 70 if quick else 10000, False):
        if rep.out_of_time():
            break
        for proc in ('factory_qelim_shannon', 'factory_qelim_selfsub',
                     'qelim_shannon', 'qelim_selfsub'):
            if want(proc):
                ck.check(proc, b, j)
                j += 1
    rep.share(1.0)
    for b in qelim_cases(rng, 70 if quick else 10000, True):
        if rep.out_of_time():
            break
        for proc in ('qelim_shannon', 'qelim_selfsub'):
            if want(proc):
                ck.check(proc, b, j)
                j += 1


def replay(case, rep):
    common.fresh_env()
    ck = Checker(rep)
    c = case['case']
    ck.check(c['proc'], B.from_json(c['bp']), 0)
