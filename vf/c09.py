"""C09 - printing then parsing gives the formula back."""
import random
import warnings
from io import StringIO

from . import bp as B
from . import gen as G
from . import judge as J
from . import monitors as M
from . import common
from . import keys as K
from .c04 import canon
from .c07 import hostile_names

PROP = 'C09'
ASSOC = ('and', 'or', 'plus', 'times', 'strconcat')
HR_KEYWORDS = set(['False', 'True', 'xor', 'bv2nat', 'bvcomp', 'ROR', 'ROL',
                   'ZEXT', 'SEXT', 'ToReal', 'Int', 'Real', 'Bool', 'forall',
                   'exists', 'Array', 'BV', 'a', 'u', 's', 'str', 'int'])


def fold_stores(b, memo=None):
    """A chain of stores at constant indexes over a constant-array literal
    is the same array value: fold it (the statement allows the literal to
    come back as a chain of stores)."""
    if memo is None:
        memo = {}
    k = id(b)
    if k in memo:
        return memo[k]
    op, pl, kids = b
    ks = tuple(fold_stores(c, memo) for c in kids)
    r = (op, pl, ks)
    if op == 'store' and ks[0][0] == 'arrayval' and ks[1][0] in (
            'int', 'real', 'bv', 'str', 'bool'):
        a = ks[0]
        pairs = dict(zip(a[2][1::2], a[2][2::2]))
        pairs[ks[1]] = ks[2]
        flat = [a[2][0]]
        for kk in sorted(pairs, key=repr):
            if pairs[kk] != a[2][0]:
                flat += [kk, pairs[kk]]
        r = ('arrayval', a[1], tuple(flat))
    elif op == 'arrayval':
        pairs = dict(zip(ks[1::2], ks[2::2]))
        flat = [ks[0]]
        for kk in sorted(pairs, key=repr):
            if pairs[kk] != ks[0]:
                flat += [kk, pairs[kk]]
        r = ('arrayval', pl, tuple(flat))
    memo[k] = r
    return r


def flatten(b, memo=None):
    if memo is None:
        memo = {}
    k = id(b)
    if k in memo:
        return memo[k]
    op, pl, kids = b
    ks = [flatten(c, memo) for c in kids]
    if op in ASSOC:
        out = []
        for c in ks:
            if c[0] == op:
                out.extend(c[2])
            else:
                out.append(c)
        ks = out
    r = (op, pl, tuple(ks))
    memo[k] = r
    return r


class Checker(object):
    def __init__(self, rep):
        self.rep = rep
        self.rng = random.Random(rep.seed * 2750159 + rep.shard)
        self.sb = J.ShrinkBudget(rep, 25)

    # ---- (1) SMT-LIB formula round trip -------------------------------
    def smt_once(self, how, b):
        from pysmt.environment import get_env
        from pysmt.smtlib.parser import SmtLibParser
        from pysmt.smtlib.script import smtlibscript_from_formula
        env = get_env()
        try:
            with warnings.catch_warnings():
                warnings.simplefilter('ignore')
                f = B.build(b, env)
        except Exception as e:
            return 'build', repr(e)
        if not f.get_type().is_bool_type():
            return 'build', 'not boolean'
        fb = B.describe(f)
        try:
            buf = StringIO()
            with warnings.catch_warnings():
                warnings.simplefilter('ignore')
                import pysmt.logics as L
                # explicit logic: no dependence on logic detection
                smtlibscript_from_formula(f, logic=L.QF_AUFBVLIRA).serialize(
                    buf, daggify=(how == 'dag'))
            text = buf.getvalue()
        except Exception as e:
            if 'NoLogicAvailable' in common.exc_name(e):
                return 'build', 'no logic'
            return 'exc-print:' + common.exc_name(e), 'printing %s raised ' \
                '%r' % (B.show(fb, 120), e)
        try:
            with warnings.catch_warnings():
                warnings.simplefilter('ignore')
                sc = SmtLibParser(env).get_script(StringIO(text))
                g = sc.get_last_formula()
        except Exception as e:
            return 'exc-parse:' + common.exc_name(e), (
                'pySMT cannot parse its own %s print of %s: %r\n%s' % (
                    how, B.show(fb, 120), e, text[:300]))
        has_arr = any(s[0] == 'arrayval' and len(s[2]) > 1
                      for s in B.subterms(fb))
        if not has_arr:
            self.rep.count('identity_compared')
            if g is not f:
                return 'not-identical', (
                    '%s print of %s parses back to another formula: %s\n%s'
                    % (how, B.show(fb, 150), B.show(B.describe(g), 150),
                       text[:300]))
        else:
            self.rep.count('store_chain_compared')
            if fold_stores(canon(B.describe(g))) != fold_stores(canon(fb)):
                return 'not-equal-modulo-stores', (
                    '%s print of %s parses back to %s' % (
                        how, B.show(fb, 150), B.show(B.describe(g), 150)))
        return None, None

    # ---- (3) HR round trip --------------------------------------------
    def hr_fragment(self, fb):
        for s in B.subterms(fb):
            if s[0] == 'str' and ('"' in s[1] or '\\' in s[1]):
                return False
            if s[0] == 'sym':
                n = s[1][0]
                if n in HR_KEYWORDS:
                    return False
            if s[0] == 'pow':
                return False
        for t in B.types_in(fb):
            r = repr(t)
            if "'U'" in r or ("'Array'" in r and "'String'" in r):
                return False
            if t[0] == 'Fun':
                pass
        return True

    def hr_once(self, b):
        from pysmt.environment import get_env
        from pysmt.parsing import HRParser
        env = get_env()
        try:
            with warnings.catch_warnings():
                warnings.simplefilter('ignore')
                f = B.build(b, env)
        except Exception as e:
            return 'build', repr(e)
        fb = canon(B.describe(f))
        if not self.hr_fragment(fb):
            return 'build', 'outside the HR fragment'
        try:
            text = f.serialize()
        except Exception as e:
            return 'exc-print:' + common.exc_name(e), 'serialize raised %r' % e
        try:
            with warnings.catch_warnings():
                warnings.simplefilter('ignore')
                g = HRParser(env).parse(text)
        except Exception as e:
            return 'exc-parse:' + common.exc_name(e), (
                'HRParser cannot parse the serialisation of %s: %r\n%s' % (
                    B.show(fb, 120), e, text[:300]))
        gb = canon(B.describe(g))
        try:
            if B.typeof(gb) != B.typeof(fb):
                return 'type', 'type %r became %r' % (B.typeof(fb),
                                                      B.typeof(gb))
        except B.IllTyped as e:
            return 'type', str(e)
        self.rep.count('hr_compared')
        if flatten(fold_stores(gb)) != flatten(fold_stores(fb)):
            # not the same up to grouping: decide by meaning
            v, info = J.compare(fb, gb, self.rng, n_samples=16,
                                seed=self.rep.seed)
            if v == 'diff':
                return 'hr-value', '%s parses back as %s; under %s: %s vs ' \
                    '%s' % (text[:200], g.serialize()[:200], info['I'],
                            info['v1'], info['v2'])
            return 'hr-structure', (
                'the serialisation of %s parses back to a formula that '
                'differs by more than the grouping of n-ary operators: %s' % (
                    text[:200], g.serialize()[:200]))
        return None, None

    def check(self, proc, b, j):
        rep = self.rep
        once = self.hr_once if proc == 'hr' else (
            lambda x: self.smt_once(proc, x))
        kind, info = once(b)
        rep.case(key=hash((proc, b)), sample='%s: %s' % (proc, B.show(b, 120))
                 if j % 409 == 0 else None)
        if kind is None:
            rep.count('round_trips_' + proc)
            return
        if kind == 'build':
            rep.count('build_rejected_or_outside')
            return

        def fails(x):
            return once(x)[0] == kind
        if self.detail(b) == 'name-is-parenthesis' and \
                kind.startswith('exc-parse'):
            # mechanism: the tokenizer returns the content of a quoted
            # symbol as a plain token, so |(| and |)| become parentheses
            # (and |:x| a keyword)
            rep.violation('C09/quoted-symbol-token-class',
                          '%s: %s' % (kind, info),
                          {'bp': B.to_json(b), 'proc': proc, 'kind': kind})
            return
        key, m = self.sb.classify(PROP, proc, kind, b, fails,
                                  detail=self.detail)
        what = info
        if m is not None and m is not b:
            what = 'minimal: %s' % (once(m)[1],)
        rep.violation(key, '%s: %s' % (kind, what), {
            'bp': B.to_json(m if m is not None else b), 'proc': proc,
            'kind': kind})

    @staticmethod
    def detail(m):
        """mechanism detail: does a symbol name consist of SMT-LIB delimiter
        characters only?"""
        for s in B.subterms(m):
            names = []
            if s[0] == 'sym':
                names.append(s[1][0])
            if s[0] == 'app':
                names.append(s[1][0])
            if s[0] in ('forall', 'exists'):
                names += [n for n, _ in s[1]]
            for n in names:
                if n in ('(', ')') or n.startswith(':'):
                    return 'name-is-parenthesis'
        return 'other-names'


# ---- (2) script round trip ---------------------------------------------
def cmd_key(cmd, ren):
    """Environment-free key of a command; define-fun parameters renamed."""
    from pysmt.fnode import FNode
    import pysmt.smtlib.commands as smtcmd

    def k(x):
        if isinstance(x, FNode):
            return ('F', rename(K.skey(x), ren))
        if isinstance(x, (list, tuple)):
            return tuple(k(y) for y in x)
        if hasattr(x, 'is_bool_type'):
            return ('T', repr(B.from_pytype(x)))
        if hasattr(x, 'name') and hasattr(x, 'theory'):
            return ('logic', x.name)
        if hasattr(x, 'arity') and hasattr(x, 'name'):
            return ('decl', x.name, x.arity)
        return ('V', str(x))
    if cmd.name == smtcmd.DEFINE_FUN:
        name, params, rtype, body = cmd.args
        local = dict(ren)
        for i, p in enumerate(params):
            local[p.symbol_name()] = '?p%d' % i
        return (cmd.name, name, tuple(
            ('?p%d' % i, repr(B.from_pytype(p.symbol_type())))
            for i, p in enumerate(params)), repr(B.from_pytype(rtype)),
            rename(K.skey(body), local))
    if cmd.name == smtcmd.ASSERT_SOFT:
        # an omitted weight is the standard's default 1 (the parser fills
        # it in); the order of the attributes does not matter
        params = dict((str(a), b) for (a, b) in cmd.args[1])
        kp = dict((a, k(b)) for a, b in params.items())
        kp.setdefault(':weight', ('F', ('int', 1, ())))
        return (cmd.name, k(cmd.args[0]), tuple(sorted(kp.items())))
    return (cmd.name, k(cmd.args))


def rename(b, ren):
    op, pl, kids = b
    ks = tuple(rename(c, ren) for c in kids)
    if op == 'sym' and pl[0] in ren:
        return ('sym', (ren[pl[0]], pl[1]), ())
    return (op, pl, ks)


FORMULA_CMDS = ('assert', 'define-fun', 'get-value', 'assert-soft')


def random_script(rng, env, names):
    """Builds a script of serialisable commands through the API."""
    from pysmt.smtlib.script import SmtLibScript
    import pysmt.smtlib.commands as smtcmd
    import pysmt.logics as L
    import pysmt.typing as T
    mgr = env.formula_manager
    sc = SmtLibScript()
    # a logic that has every sort the script declares
    sc.add(smtcmd.SET_LOGIC, [L.QF_AUFBVLIRA])
    if rng.random() < 0.5:
        sc.add(smtcmd.SET_OPTION, [':produce-models', 'true'])
    if rng.random() < 0.3:
        sc.add(smtcmd.SET_INFO, [':status', 'sat'])
    nm = lambda: rng.choice(names)
    syms = []
    used = set()
    for _ in range(rng.randint(2, 6)):
        n = nm()
        if n in used:
            continue
        used.add(n)
        t = rng.choice([T.BOOL, T.INT, T.REAL, T.BVType(4),
                        T.FunctionType(T.INT, [T.INT, T.BOOL])])
        s = mgr.Symbol(n, t)
        syms.append(s)
        sc.add(rng.choice([smtcmd.DECLARE_FUN, smtcmd.DECLARE_CONST])
               if not t.is_function_type() else smtcmd.DECLARE_FUN, [s])
    bools = [s for s in syms if s.symbol_type().is_bool_type()]
    ints = [s for s in syms if s.symbol_type().is_int_type()]
    bvs = [s for s in syms if s.symbol_type().is_bv_type()]

    def formula():
        atoms = list(bools) or [mgr.TRUE()]
        if len(ints) >= 1:
            atoms.append(mgr.LE(ints[0], mgr.Plus(ints[-1], mgr.Int(
                rng.randint(-3, 3)))))
        if bvs:
            atoms.append(mgr.BVULT(bvs[0], mgr.BV(rng.randrange(16), 4)))
        a, b = rng.choice(atoms), rng.choice(atoms)
        return rng.choice([mgr.And(a, mgr.Not(b)), mgr.Or(a, b),
                           mgr.Implies(a, b), a])
    # define-fun with parameters
    if rng.random() < 0.7:
        n = nm()
        if n not in used:
            used.add(n)
            px = mgr.Symbol(n + '_px', T.INT)
            pb = mgr.Symbol(n + '_pb', T.BOOL)
            body = mgr.Ite(pb, mgr.Plus(px, mgr.Int(1)), px)
            sc.add(smtcmd.DEFINE_FUN, [n, [px, pb], T.INT, body])
    depth = 0
    for _ in range(rng.randint(2, 10)):
        k = rng.random()
        if k < 0.4:
            sc.add(smtcmd.ASSERT, [formula()])
        elif k < 0.5:
            n = rng.randint(1, 2)
            sc.add(smtcmd.PUSH, [n])
            depth += n
        elif k < 0.6 and depth > 0:
            n = rng.randint(1, depth)
            sc.add(smtcmd.POP, [n])
            depth -= n
        elif k < 0.7:
            sc.add(smtcmd.CHECK_SAT, [])
        elif k < 0.78 and (ints or bvs or bools):
            sc.add(smtcmd.GET_VALUE, [rng.choice(ints + bvs + bools)])
        elif k < 0.86:
            params = [(':id', rng.choice(['g1', 'g2']))]
            if rng.random() < 0.6:
                params.insert(0, (':weight', rng.choice([
                    mgr.Int(rng.randint(1, 5)), mgr.Int(1), mgr.Real(1),
                    mgr.Real((rng.randint(1, 7), 2)), mgr.Int(0),
                    mgr.BV(1, 4), mgr.BV(rng.randrange(16), 4)])))
            sc.add(smtcmd.ASSERT_SOFT, [formula(), params])
        elif k < 0.93 and (ints or bvs):
            t = rng.choice(ints + bvs)
            signed = bool(t.symbol_type().is_bv_type() and rng.random() < 0.5)
            sc.add(rng.choice([smtcmd.MINIMIZE, smtcmd.MAXIMIZE]),
                   [t, [(':signed', signed)]])
        elif len(bvs) >= 1:
            sc.add(rng.choice([smtcmd.MINMAX, smtcmd.MAXMIN]),
                   [[bvs[0], mgr.BVAdd(bvs[0], mgr.BV(1, 4))],
                    [(':signed', rng.random() < 0.5)]])
    if rng.random() < 0.5:
        sc.add(smtcmd.CHECK_SAT, [])
    if rng.random() < 0.3:
        sc.add(smtcmd.EXIT, [])
    return sc


def script_round_trip(rep, rng, names, j):
    from pysmt.smtlib.parser import SmtLibParser
    env = common.fresh_env()
    try:
        with warnings.catch_warnings():
            warnings.simplefilter('ignore')
            s0 = random_script(rng, env, names)
    except Exception as e:
        rep.count('script_build_rejected')
        return
    plain = not any(n in ('(', ')') or n.startswith(':') for n in names)
    rep.case(key=('script', rep.shard, j),
             sample='script: %s' % [c.name for c in s0.commands][:12]
             if j % 89 == 0 else None)

    def ser(sc, dag):
        buf = StringIO()
        with warnings.catch_warnings():
            warnings.simplefilter('ignore')
            sc.serialize(buf, daggify=dag)
        return buf.getvalue()
    dag = (j % 2 == 0)
    detail = 'other-names' if plain else 'name-is-parenthesis'
    try:
        t0 = ser(s0, dag)
    except Exception as e:
        rep.violation('C09/script/serialize-raises/%s' % common.exc_name(e),
                      'serialising an API-built script raised %r' % e)
        return
    try:
        with warnings.catch_warnings():
            warnings.simplefilter('ignore')
            s1 = SmtLibParser(env).get_script(StringIO(t0))
    except Exception as e:
        if not plain:
            rep.violation('C09/quoted-symbol-token-class',
                          'script with a symbol named like a parenthesis / '
                          'keyword: %r' % (e,))
            return
        rep.violation(
            'C09/script/own-output-rejected/%s/%s' % (common.exc_name(e),
                                                      detail),
            'pySMT cannot parse the serialisation of a script built '
            'through its API: %r\n%s' % (e, t0[:400]))
        return
    try:
        t1 = ser(s1, dag)
        with warnings.catch_warnings():
            warnings.simplefilter('ignore')
            s2 = SmtLibParser(env).get_script(StringIO(t1))
    except Exception as e:
        rep.violation(
            'C09/script/reserialised-rejected/%s/%s' % (common.exc_name(e),
                                                        detail),
            'a parsed script re-serialises to text pySMT rejects: %r\n%s' % (
                e, t0[:400]))
        return
    k1 = [cmd_key(c, {}) for c in s1.commands]
    k2 = [cmd_key(c, {}) for c in s2.commands]
    # the formulas of the script built through the API against those read
    # back from its text, command by command
    f0 = [cmd_key(c, {}) for c in s0.commands if c.name in FORMULA_CMDS]
    f1 = [cmd_key(c, {}) for c in s1.commands if c.name in FORMULA_CMDS]
    rep.count('script_formula_commands', len(f0))
    if f0 != f1:
        for a, b_ in zip(f0 + [None], f1 + [None]):
            if a != b_:
                break
        rep.violation(
            'C09/script/formula-differs-from-built/%s/%s' % (
                (a or b_)[0], detail),
            'parse(serialize(S)) differs from the script S built through '
            'the API (daggify=%r): %s vs %s\n%s' % (
                dag, str(a)[:200], str(b_)[:200], t0[:300]))
        return
    rep.count('scripts_compared')
    rep.count('script_commands', len(k1))
    if k1 != k2:
        for a, b_ in zip(k1, k2):
            if a != b_:
                break
        rep.violation(
            'C09/script/commands-differ/%s/%s' % (a[0], detail),
            'parse(serialize(parse(T))) differs from parse(T): %s vs %s\n%s'
            % (str(a)[:200], str(b_)[:200], t0[:300]))


def simple_names():
    out = []
    for base in ('x', 'y', 'zz', 'Var', 'v_1', 'k9', '_u', 'alpha', 'B2b',
                 'q', 'w0', 'm_', 'n1', 'c'):
        out.append(base)
    return out


def run(rep):
    M.NODE_MONITOR.install()
    ck = Checker(rep)
    rng = ck.rng
    quick = rep.tier == 'quick'
    names = hostile_names(random.Random(rep.seed + 5), 160)
    # pySMT's own round trip also covers the two characters SMT-LIB cannot
    # write in a symbol (it escapes them as \\| and \\\\)
    names += ['path\\to', 'a|b', '\\', '|', 'x\\|y', 'end\\', '\\\\n',
              'a\\b|c', '||', 'q\\ r']
    j = 0
    # the export checker's special formulas (several custom and parametric
    # sorts at once, sorts that occur only in binders or literals, shared
    # sub-terms, let-like names) through pySMT's own reader
    from .c07 import special_cases as export_specials
    common.fresh_env()
    for i, b in enumerate(export_specials(names)):
        if i % rep.nshards != rep.shard:
            continue
        hostile_sort = any(
            t[0] == 'U' and (any(ch in t[1] for ch in ' ;()#|"') or
                             t[1][:1].isdigit())
            for t in B.types_in(b)) or 'hs_c' in repr(b)
        for proc in ('tree', 'dag'):
            if rep.only and rep.only != proc:
                continue
            if hostile_sort:
                # one mechanism, recorded: sort names are written verbatim
                kind, info = ck.smt_once(proc, b)
                rep.case(key=hash((proc, b)))
                if kind is not None and kind != 'build':
                    rep.violation('C09/sort-name-not-quoted',
                                  '%s: %s' % (kind, info),
                                  {'bp': B.to_json(b), 'proc': proc})
                continue
            ck.check(proc, b, j)
            rep.count('export_special_cases')
            j += 1
    n = 700 if quick else 40000
    rep.share(0.4)
    k = 0
    while k < n and not rep.out_of_time():
        if k % 100 == 0:
            common.fresh_env()
        hostile = (k % 3 == 0)
        cfg = [G.Cfg(share=0.45, max_depth=5),
               G.Cfg(share=0.45, quant=False),
               G.Cfg(share=0.5, max_depth=4, strings=False)][k % 3]
        if hostile:
            rng.shuffle(names)
            cfg.names = list(names[:40])
            cfg.nsyms = 2
        if k % 7 == 3:
            cfg = G.Cfg(share=0.5, max_depth=4, strings=False, arrays=False,
                        uf=False, custom=False,
                        names=['.def_%d' % i for i in range(8)], nsyms=2)
        g = G.Gen(rng, cfg)
        b = g.term(B.BOOL)
        for proc in ('tree', 'dag'):
            if rep.only and rep.only != proc:
                continue
            ck.check(proc, b, j)
            j += 1
        k += 1
    # HR fragment
    nh = 700 if quick else 40000
    rep.share(0.7)
    k = 0
    while k < nh and not rep.out_of_time():
        if rep.only and rep.only != 'hr':
            break
        if k % 100 == 0:
            common.fresh_env()
        cfg = [G.Cfg(share=0.4, max_depth=5, custom=False),
               G.Cfg(share=0.4, quant=False, custom=False),
               G.Cfg(share=0.4, max_depth=4, strings=False, custom=False,
                     names=simple_names(), nsyms=2)][k % 3]
        g = G.Gen(rng, cfg)
        b = g.term(rng.choice([B.BOOL, B.BOOL, B.INT, B.BV(8)]))
        ck.check('hr', b, j)
        j += 1
        k += 1
    ns = 300 if quick else 20000
    rep.share(1.0)
    plain = simple_names() + ['p_%d' % i for i in range(10)]
    for k in range(ns):
        if rep.out_of_time() or (rep.only and rep.only != 'script'):
            break
        pool = plain if k % 3 else (names[:30] + plain[:5])
        if k % 4 == 1:
            # user symbols named like the DAG printer's let variables
            pool = ['.def_%d' % i for i in range(4)] + plain[:3]
        script_round_trip(rep, rng, pool, k)


def replay(case, rep):
    common.fresh_env()
    ck = Checker(rep)
    c = case.get('case') or {}
    if c.get('bp'):
        ck.check(c['proc'], B.from_json(c['bp']), 0)
    else:
        rep.only = 'script'
        run(rep)
