#!/venv/bin/python
"""M4 - reference solver process: a strict SMT-LIB solver on stdin/stdout.

Front end: vf/smtread.py (strict: undeclared / redeclared symbols, pop beyond
depth, ill-sorted terms, unknown commands are errors).  Decision procedure:
exhaustive enumeration over finite domains (Bool, bit-vectors, small arrays;
integers in [-8, 8]; uninterpreted sorts with as many elements as there are
symbols of the sort).  One reply per command; every command and reply is
appended to a JSON-lines log.

Usage: refsolver.py [--log FILE] [--delay-ms N] [--mode MODE] [--name NAME]
                    [--plan FILE]   (JSON {name: {delay, mode}}, re-read at every check-sat)
                    [--fault FILE]  (JSON {head, reply}: one-shot, armed by creating the file)
MODE: ok | unknown | error | crash | exit | hang | garbage | slowstart
"""
import argparse
import json
import os
import sys
import time

HERE = os.path.dirname(os.path.abspath(__file__))
sys.path.insert(0, os.path.dirname(HERE))

from vf import bp as B              # noqa: E402
from vf import refeval as R         # noqa: E402
from vf import smtread as S         # noqa: E402


class Log(object):
    def __init__(self, path, name):
        self.f = open(path, 'a') if path else None
        self.seq = 0
        self.name = name

    def write(self, **kw):
        if self.f is None:
            return
        self.seq += 1
        kw['seq'] = self.seq
        kw['solver'] = self.name
        kw['pid'] = os.getpid()
        kw['t'] = time.time()
        self.f.write(json.dumps(kw, default=str) + '\n')
        self.f.flush()


class _FdReader(object):
    """Characters from a file descriptor with an own buffer, so that
    select() tells the truth about pending input."""

    def __init__(self, stream):
        try:
            self.fd = stream.fileno()
        except Exception:
            self.fd = None
            self.stream = stream
        self.buf = ''
        self.pos = 0
        import codecs
        self.dec = codecs.getincrementaldecoder('utf-8')('replace')

    def getc(self, timeout):
        if self.fd is None:
            return self.stream.read(1)
        while self.pos >= len(self.buf):
            if timeout is not None:
                import select
                ready, _, _ = select.select([self.fd], [], [], timeout)
                if not ready:
                    return None
            data = os.read(self.fd, 65536)
            if not data:
                return ''
            self.buf = self.dec.decode(data)
            self.pos = 0
        c = self.buf[self.pos]
        self.pos += 1
        return c


def read_commands(stream):
    """Yield complete top-level S-expressions (as text) from a char stream."""
    buf = []
    depth = 0
    in_str = in_q = in_comment = False
    reader = _FdReader(stream)
    while True:
        c = reader.getc(3.0 if ((depth > 0 or in_str or in_q or in_comment)
                                and buf) else None)
        if c is None:
            # in the middle of a command and the sender stays silent: it is
            # waiting for a reply to text that is not a complete command
            # (e.g. an unquoted ';' swallowed the closing parenthesis)
            yield ''.join(buf) + ' <incomplete command: the sender went ' \
                'silent>'
            buf = []
            depth = 0
            in_str = in_q = in_comment = False
            continue
        if c == '':
            return
        if in_comment:
            if c in '\r\n':
                in_comment = False
            continue
        if in_str:
            buf.append(c)
            if c == '"':
                in_str = False
            continue
        if in_q:
            buf.append(c)
            if c == '|':
                in_q = False
            continue
        if c == ';':
            in_comment = True
            continue
        if c == '"':
            in_str = True
            buf.append(c)
            continue
        if c == '|':
            in_q = True
            buf.append(c)
            continue
        if c == '(':
            depth += 1
            buf.append(c)
            continue
        if c == ')':
            depth -= 1
            buf.append(c)
            if depth == 0:
                yield ''.join(buf)
                buf = []
            elif depth < 0:
                yield ')'
                buf = []
                depth = 0
            continue
        if depth > 0:
            buf.append(c)
        elif not c.isspace():
            # junk outside parentheses: collect up to whitespace
            buf.append(c)
            depth = 0
            while True:
                c2 = stream.read(1)
                if c2 == '' or c2.isspace():
                    break
                buf.append(c2)
            yield ''.join(buf)
            buf = []


def print_value(v, t):
    k = t[0]
    if k == 'Bool':
        return 'true' if v else 'false'
    if k == 'Int':
        return str(v) if v >= 0 else '(- %d)' % (-v)
    if k == 'Real':
        n, d = abs(v.numerator), v.denominator
        s = '%d.0' % n if d == 1 else '(/ %d.0 %d.0)' % (n, d)
        return s if v >= 0 else '(- %s)' % s
    if k == 'BV':
        return '#b' + format(v, '0%db' % t[1])
    if k == 'String':
        return '"%s"' % v.replace('"', '""')
    raise ValueError('cannot print a value of sort %r' % (t,))


class Solver(object):
    def __init__(self, args):
        self.args = args
        self.log = Log(args.log, args.name)
        self.reader = S.Reader()
        self.print_success = False
        self.model = None
        self.produce_models = True
        self.checks = 0

    def reply(self, text, cmd, legal=True, note=None):
        self.log.write(ev='reply', reply=text, cmd=cmd[:300], legal=legal,
                       note=note)
        sys.stdout.write(text + '\n')
        sys.stdout.flush()

    def domain(self, t, usyms):
        vs = R.all_values(t, 64)
        if vs is not None:
            return vs
        if t == B.INT:
            return list(range(-8, 9))
        if t[0] == 'U':
            n = max(1, usyms.get(t, 1))
            return [R.UVal(t[1], i) for i in range(n)]
        raise ValueError('sort %r is outside the reference solver' % (t,))

    def check_sat(self):
        live = self.reader.live_assertions()
        syms = set()
        for b in live:
            syms |= set(B.free_syms(b))
        syms = sorted(syms)
        usyms = {}
        for (_, t) in syms:
            if t[0] == 'U':
                usyms[t] = usyms.get(t, 0) + 1
            if t[0] == 'Fun':
                raise ValueError('functions are outside the reference '
                                 'solver')
        doms = [self.domain(t, usyms) for (_, t) in syms]
        I = R.find_model(live, syms, doms, unconstrained_is_false=True)
        if I is not None:
            # total model: every declared constant gets a value
            decl = self.reader.declared()
            for n, t in decl.items():
                if n not in I and t[0] != 'Fun':
                    I[n] = self.domain(t, usyms)[0]
        return I

    def handle(self, text):
        a = self.args
        self.log.write(ev='cmd', cmd=text[:2000])
        try:
            toks = S.tokenize(text)
            sx = S.parse_sexprs(toks)
            if len(sx) != 1 or not isinstance(sx[0], list) or not sx[0]:
                raise S.SmtError('syntax', 'command expected: %r' % text[:40])
            c = sx[0]
            head = c[0].val if isinstance(c[0], S.Tok) else None
            if a.fault and os.path.exists(a.fault):
                # one-shot fault armed by the harness (C15): the first
                # command with the given head is not executed and gets the
                # given reply ('unsupported' or an error), as the standard
                # allows for any command a solver does not implement
                try:
                    with open(a.fault) as f:
                        ft = json.load(f)
                except (OSError, ValueError):
                    ft = None
                if ft and ft.get('head') in (head, '*') and \
                        ft.get('skip', 0) > 0:
                    # the fault is for a later command with this head
                    ft['skip'] -= 1
                    with open(a.fault, 'w') as f:
                        json.dump(ft, f)
                elif ft and ft.get('head') in (head, '*'):
                    os.unlink(a.fault)
                    self.log.write(ev='fault', head=head)
                    return self.reply(ft.get('reply', 'unsupported'), text,
                                      legal=True, note='injected')
            if head == 'set-option':
                if len(c) >= 3 and c[1].kind == 'kw':
                    if c[1].val == ':print-success':
                        self.print_success = (c[2].val == 'true')
                    if c[1].val == ':produce-models':
                        self.produce_models = (c[2].val == 'true')
                self.reader.command(c)
                return self.success(text)
            if head == 'check-sat':
                self.reader.command(c)
                self.checks += 1
                if a.plan:
                    # per-query delay / mode set by the harness (C19)
                    try:
                        with open(a.plan) as f:
                            pl = json.load(f).get(a.name)
                        if isinstance(pl, list):
                            # several members share the name: each takes
                            # the next free slot of the list
                            got = None
                            for i, cand in enumerate(pl):
                                try:
                                    fd = os.open('%s.claim.%s.%d' % (
                                        a.plan, a.name, i),
                                        os.O_CREAT | os.O_EXCL | os.O_WRONLY)
                                    os.close(fd)
                                    got = cand
                                    break
                                except OSError:
                                    continue
                            pl = got
                        if pl:
                            a.delay_ms = pl.get('delay', a.delay_ms)
                            a.mode = pl.get('mode', a.mode)
                    except (OSError, ValueError):
                        pass
                if a.delay_ms:
                    time.sleep(a.delay_ms / 1000.0)
                if a.mode == 'crash':
                    self.log.write(ev='crash')
                    os._exit(3)
                if a.mode == 'hang':
                    self.log.write(ev='hang')
                    time.sleep(10 ** 6)
                if a.mode == 'unknown':
                    return self.reply('unknown', text)
                if a.mode == 'error':
                    return self.reply('(error "reference solver: simulated '
                                      'failure")', text)
                if a.mode == 'garbage':
                    return self.reply('maybe', text)
                self.model = self.check_sat()
                r = self.reply('sat' if self.model is not None else 'unsat',
                               text)
                if a.mode == 'exit':
                    self.log.write(ev='exit-after-answer')
                    os._exit(0)
                return r
            if head == 'get-value':
                if self.model is None:
                    raise S.SmtError('no-model', 'get-value without a model')
                if len(c) != 2 or not isinstance(c[1], list):
                    raise S.SmtError('syntax', 'get-value')
                pairs = []
                # the term text, verbatim
                inner = text.strip()[len('(get-value'):].strip()
                inner = inner[1:-2].strip() if inner.endswith('))') else inner
                for tx in c[1]:
                    b = self.reader.term(tx, {})
                    t = self.reader.typ(b)
                    I = dict(self.model)
                    v = R.evaluate(b, I)
                    pairs.append((b, t, v))
                self.reader.commands.append(('get-value', [p[0] for p in
                                                           pairs]))
                srcs = split_terms(inner, len(pairs))
                out = '(' + ' '.join('(%s %s)' % (s, print_value(v, t))
                                     for s, (b, t, v) in zip(srcs, pairs)) \
                    + ')'
                return self.reply(out, text)
            if head == 'exit':
                self.reader.command(c)
                self.success(text)
                self.log.write(ev='exit')
                sys.exit(0)
            # state-changing commands invalidate the model
            if head in ('assert', 'push', 'pop', 'reset-assertions',
                        'declare-fun', 'declare-const', 'declare-sort',
                        'define-fun', 'reset'):
                self.model = None
            self.reader.command(c)
            return self.success(text)
        except S.SmtError as e:
            return self.reply('(error "%s")' % str(e).replace('"', "'"),
                              text, legal=False, note=e.kind)
        except (ValueError, R.EvalError) as e:
            return self.reply('(error "unsupported: %s")' % str(e).replace(
                '"', "'"), text, legal=True, note='unsupported')

    def success(self, text):
        if self.print_success:
            self.reply('success', text)
        else:
            self.log.write(ev='silent', cmd=text[:300])


def split_terms(inner, n):
    """Split the argument list of get-value into n top-level terms."""
    out = []
    depth = 0
    cur = []
    in_str = in_q = False
    for ch in inner:
        if in_str:
            cur.append(ch)
            if ch == '"':
                in_str = False
            continue
        if in_q:
            cur.append(ch)
            if ch == '|':
                in_q = False
            continue
        if ch == '"':
            in_str = True
        elif ch == '|':
            in_q = True
        if ch == '(':
            depth += 1
        if ch == ')':
            depth -= 1
        if ch.isspace() and depth == 0:
            if cur:
                out.append(''.join(cur))
                cur = []
            continue
        cur.append(ch)
    if cur:
        out.append(''.join(cur))
    if len(out) != n:
        return [inner] if n == 1 else out[:n] + ['?'] * (n - len(out))
    return out


def main():
    ap = argparse.ArgumentParser()
    ap.add_argument('--log', default=None)
    ap.add_argument('--delay-ms', type=int, default=0)
    ap.add_argument('--mode', default='ok')
    ap.add_argument('--name', default='ref')
    ap.add_argument('--plan', default=None)
    ap.add_argument('--fault', default=None)
    a = ap.parse_args()
    if a.mode == 'slowstart':
        time.sleep(0.3)
    s = Solver(a)
    s.log.write(ev='start', mode=a.mode, delay_ms=a.delay_ms)
    for text in read_commands(sys.stdin):
        s.handle(text)
    s.log.write(ev='eof')


if __name__ == '__main__':
    main()
