"""M5 - brute-force pySMT solver: a subclass of the real
IncrementalTrackingSolver that implements only the documented proxy methods
by enumeration with the reference evaluator.  All the book-keeping under test
(assertion stack, backtrack points, pending pop, is_sat/is_valid/is_unsat,
optimiser mix-ins) is pySMT's own code."""
import itertools

from . import bp as B
from . import refeval as R


def make_classes():
    from pysmt.solvers.solver import IncrementalTrackingSolver, Model
    from pysmt.solvers.eager import EagerModel
    from pysmt.solvers.options import SolverOptions
    from pysmt.decorators import clear_pending_pop
    from pysmt.exceptions import SolverReturnedUnknownResultError
    import pysmt.logics

    class BruteOptions(SolverOptions):
        def __init__(self, **base_options):
            self.int_range = base_options.pop('int_range', (-8, 8))
            self.order = base_options.pop('order', 'asc')
            self.unknown_on = base_options.pop('unknown_on', None)
            SolverOptions.__init__(self, **base_options)

        def __call__(self, solver):
            pass

    class BruteSolver(IncrementalTrackingSolver):
        LOGICS = pysmt.logics.PYSMT_LOGICS
        OptionsClass = BruteOptions

        def __init__(self, environment, logic, **options):
            IncrementalTrackingSolver.__init__(self, environment=environment,
                                               logic=logic, **options)
            self.mgr = environment.formula_manager
            self.frames = [[]]
            self.model = None
            self.n_solve_calls = 0
            self.backend_log = []

        # ---- proxies -----------------------------------------------------
        @clear_pending_pop
        def _reset_assertions(self):
            self.frames = [[]]
            self.backend_log.append(('reset',))

        @clear_pending_pop
        def _add_assertion(self, formula, named=None):
            self._assert_is_boolean(formula)
            self.frames[-1].append(formula)
            self.backend_log.append(('assert', formula))
            return formula

        @clear_pending_pop
        def _push(self, levels=1):
            for _ in range(levels):
                self.frames.append([])
            self.backend_log.append(('push', levels))

        @clear_pending_pop
        def _pop(self, levels=1):
            # (atomic, like a real solver: an illegal pop changes nothing)
            if levels > len(self.frames) - 1:
                raise RuntimeError('backend: pop beyond the first level')
            for _ in range(levels):
                self.frames.pop()
            self.backend_log.append(('pop', levels))

        @clear_pending_pop
        def _solve(self, assumptions=None):
            lits = []
            if assumptions is not None:
                other = []
                for x in assumptions:
                    if x.is_literal():
                        lits.append(x)
                    else:
                        other.append(x)
                if other:
                    self.push()
                    self.add_assertion(self.mgr.And(other))
                    self.pending_pop = True
            self.n_solve_calls += 1
            live = [f for fr in self.frames for f in fr] + lits
            self.backend_log.append(('check', len(live)))
            if self.options.unknown_on is not None and \
                    self.n_solve_calls == self.options.unknown_on:
                raise SolverReturnedUnknownResultError
            self.model = self.search(live)
            return self.model is not None

        # ---- search ------------------------------------------------------
        def domain(self, t):
            vs = R.all_values(t, 64)
            if vs is not None:
                return vs
            if t == B.INT:
                lo, hi = self.options.int_range
                return list(range(lo, hi + 1))
            raise NotImplementedError('brute solver: sort %r' % (t,))

        def search(self, live):
            bps = [B.describe(f) for f in live]
            syms = set()
            for b in bps:
                syms |= set(B.free_syms(b))
            syms = sorted(syms)
            doms = [self.domain(t) for (_, t) in syms]
            if self.options.order == 'desc':
                doms = [list(reversed(d)) for d in doms]
            for combo in itertools.product(*doms):
                I = dict((s[0], v) for s, v in zip(syms, combo))
                ok = True
                for b in bps:
                    try:
                        if not R.evaluate(b, I):
                            ok = False
                            break
                    except R.Unconstrained:
                        ok = False
                        break
                if ok:
                    return dict(((s[0], s[1]), v)
                                for s, v in zip(syms, combo))
            return None

        # ---- models ------------------------------------------------------
        def _interp(self):
            if self.model is None:
                raise RuntimeError('brute solver: no model available')
            return dict((k[0], v) for k, v in self.model.items())

        def get_value(self, item):
            self._assert_no_function_type(item)
            b = B.describe(item)
            I = self._interp()
            for (n, t) in B.free_syms(b):
                if n not in I:
                    I[n] = self.domain(t)[0]
            v = R.evaluate(b, I)
            return B.build(R.value_to_bp(v, B.typeof(b)), self.environment)

        def get_model(self):
            asg = {}
            for (n, t), v in self.model.items():
                s = self.mgr.Symbol(n, B.to_pytype(t, self.environment))
                asg[s] = B.build(R.value_to_bp(v, t), self.environment)
            return EagerModel(assignment=asg, environment=self.environment)

        def _exit(self):
            pass

    return BruteSolver, BruteOptions


_CACHE = {}


def classes():
    if 'c' not in _CACHE:
        _CACHE['c'] = make_classes()
    return _CACHE['c']
