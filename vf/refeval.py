"""M2 - reference evaluator: SMT-LIB 2.6 semantics over blueprints.

Written from the SMT-LIB theory definitions (Core, Ints, Reals, Reals_Ints,
FixedSizeBitVectors + QF_BV derived operators, ArraysEx, Strings), not from
pySMT.  Values: bool, int (Int and BV), Fraction (Real), str, ArrV, UVal.
"""
import random
import zlib
from fractions import Fraction
from itertools import product

from . import bp as B


class Unconstrained(Exception):
    """An Int/Real division by zero (or 0**negative) was evaluated."""


class EvalError(Exception):
    pass


class TooExpensive(Unconstrained):
    """The evaluation exceeded its step budget (nested quantifiers)."""


class UVal(object):
    """Element of an uninterpreted sort."""
    __slots__ = ('sort', 'k')

    def __init__(self, sort, k):
        self.sort, self.k = sort, k

    def __eq__(self, o):
        return isinstance(o, UVal) and o.sort == self.sort and o.k == self.k

    def __ne__(self, o):
        return not self == o

    def __hash__(self):
        return hash((self.sort, self.k))

    def __repr__(self):
        return '@%s!%d' % (self.sort, self.k)


def dom_size(t):
    """Cardinality of a sort's domain, None when infinite/unknown."""
    k = t[0]
    if k == 'Bool':
        return 2
    if k == 'BV':
        return 2 ** t[1]
    if k == 'Array':
        a, b = dom_size(t[1]), dom_size(t[2])
        if a is None or b is None:
            return None
        if a > 16:
            return None if b > 1 else 1
        return b ** a
    return None


class ArrV(object):
    """Extensional array value: total function index -> element."""
    __slots__ = ('itype', 'default', 'm', '_canon')

    def __init__(self, itype, default, m=None):
        self.itype = itype
        self.default = default
        self.m = dict(m or {})
        self._canon = None

    def get(self, i):
        return self.m.get(i, self.default)

    def set(self, i, v):
        m = dict(self.m)
        m[i] = v
        return ArrV(self.itype, self.default, m)

    def canon(self):
        if self._canon is None:
            d = self.default
            m = {k: v for k, v in self.m.items() if v != d}
            n = dom_size(self.itype)
            if n is not None and m:
                # finite index sort: the canonical default is the most
                # frequent element of the total function (ties: least repr)
                cnt = {}
                for v in m.values():
                    cnt[v] = cnt.get(v, 0) + 1
                cnt[d] = cnt.get(d, 0) + (n - len(m))
                best = max(cnt.values())
                nd = min((v for v in cnt if cnt[v] == best), key=vrepr)
                if nd != d:
                    full = dict(m)
                    m = {}
                    for k, v in full.items():
                        if v != nd:
                            m[k] = v
                    if n - len(full) > 0:
                        # indices that held the old default must be explicit
                        for k in all_values(self.itype, 1 << 16) or []:
                            if k not in full:
                                m[k] = d
                    d = nd
            self._canon = (d, frozenset(m.items()))
        return self._canon

    def __eq__(self, o):
        return isinstance(o, ArrV) and self.canon() == o.canon()

    def __ne__(self, o):
        return not self == o

    def __hash__(self):
        return hash(self.canon())

    def __repr__(self):
        d, m = self.canon()
        return 'Arr(%s|%s)' % (vrepr(d), ','.join(
            '%s:%s' % (vrepr(k), vrepr(v))
            for k, v in sorted(m, key=lambda kv: vrepr(kv[0]))))


def vrepr(v):
    if isinstance(v, bool):
        return 'T' if v else 'F'
    if isinstance(v, Fraction):
        return '%d/%d' % (v.numerator, v.denominator)
    return repr(v)


class FunV(object):
    """Interpretation of a function symbol: memoised pseudo-random table, or
    an explicit table (dict args->value) with a default."""

    def __init__(self, name, fty, seed=0, table=None, default=None):
        self.name, self.fty, self.seed = name, fty, seed
        self.table = dict(table or {})
        self.explicit = table is not None
        self.default = default

    def __call__(self, args):
        args = tuple(args)
        if args in self.table:
            return self.table[args]
        if self.explicit:
            return self.default
        h = zlib.crc32(('%s|%s|%s' % (self.seed, self.name, ','.join(
            vrepr(a) for a in args))).encode('utf8'))
        v = rand_value(self.fty[1], random.Random(h))
        self.table[args] = v
        return v

    def __repr__(self):
        return 'Fun<%s>' % self.name


# --------------------------------------------------------------------------
# value generation
# --------------------------------------------------------------------------
INT_CORNERS = [0, 1, -1, 2, -2, 3, 7, -7, 10, 255, 256, -128, 2 ** 31,
               10 ** 20 + 1, -(10 ** 20) - 1]
REAL_CORNERS = [Fraction(0), Fraction(1), Fraction(-1), Fraction(1, 2),
                Fraction(-1, 2), Fraction(2), Fraction(3, 2), Fraction(-7, 3),
                Fraction(10 ** 20 + 1, 3), Fraction(1, 10 ** 9)]
STR_CORNERS = ['', 'a', 'b', 'ab', 'ba', 'abc', '0', '7', '42', '-5', '007',
               'a"b', ' 5', 'aa', 'abab']


def corner_values(t):
    k = t[0]
    if k == 'Bool':
        return [False, True]
    if k == 'Int':
        return list(INT_CORNERS)
    if k == 'Real':
        return list(REAL_CORNERS)
    if k == 'String':
        return list(STR_CORNERS)
    if k == 'BV':
        w = t[1]
        vs = [0, 1, 2 ** w - 1, 2 ** (w - 1), 2 ** (w - 1) - 1, 2 % 2 ** w,
              w % 2 ** w, (w - 1) % 2 ** w, (w + 1) % 2 ** w]
        out = []
        for v in vs:
            if v not in out:
                out.append(v)
        return out
    if k == 'U':
        return [UVal(t[1], 0), UVal(t[1], 1), UVal(t[1], 2)]
    if k == 'Array':
        es = corner_values(t[2])[:3]
        ix = corner_values(t[1])[:3]
        out = [ArrV(t[1], e) for e in es]
        if len(es) > 1 and ix:
            out.append(ArrV(t[1], es[0], {ix[0]: es[1]}))
            if len(ix) > 1:
                out.append(ArrV(t[1], es[1], {ix[0]: es[0], ix[1]: es[0]}))
        return out
    raise EvalError('no values for %r' % (t,))


def rand_value(t, rng):
    k = t[0]
    if k == 'Bool':
        return rng.random() < 0.5
    if k == 'Int':
        r = rng.random()
        if r < 0.6:
            return rng.randint(-4, 4)
        if r < 0.9:
            return rng.randint(-300, 300)
        return rng.choice(INT_CORNERS)
    if k == 'Real':
        r = rng.random()
        if r < 0.5:
            return Fraction(rng.randint(-6, 6), rng.randint(1, 4))
        if r < 0.9:
            return Fraction(rng.randint(-300, 300), rng.randint(1, 17))
        return rng.choice(REAL_CORNERS)
    if k == 'String':
        if rng.random() < 0.3:
            return rng.choice(STR_CORNERS)
        n = rng.randint(0, 4)
        return ''.join(rng.choice('ab07-" ') for _ in range(n))
    if k == 'BV':
        if rng.random() < 0.3:
            return rng.choice(corner_values(t))
        return rng.randrange(2 ** t[1])
    if k == 'U':
        return UVal(t[1], rng.randint(0, 2))
    if k == 'Array':
        a = ArrV(t[1], rand_value(t[2], rng))
        for _ in range(rng.randint(0, 3)):
            a = a.set(rand_value(t[1], rng), rand_value(t[2], rng))
        return a
    raise EvalError('no values for %r' % (t,))


def all_values(t, limit=4096):
    """All values of a finite sort (None if infinite or above limit)."""
    n = dom_size(t)
    if n is None or n > limit:
        return None
    k = t[0]
    if k == 'Bool':
        return [False, True]
    if k == 'BV':
        return list(range(2 ** t[1]))
    if k == 'Array':
        ix = all_values(t[1], limit)
        es = all_values(t[2], limit)
        if ix is None or es is None:
            return None
        out = []
        for combo in product(es, repeat=len(ix)):
            out.append(ArrV(t[1], combo[0], dict(zip(ix, combo))))
        return out
    return None


DEFAULT_QDOM = {
    'Int': [-1, 0, 1, 2, 7],
    'Real': [Fraction(-1, 2), Fraction(0), Fraction(1), Fraction(3)],
    'String': ['', 'a', 'ab'],
}


def qdomain(t, D=None):
    """Quantification domain of sort t: exact when small & finite."""
    vs = all_values(t, 64)
    if vs is not None:
        return vs
    if D and t in D:
        return D[t]
    k = t[0]
    if D and k in D:
        return D[k]
    if k in DEFAULT_QDOM:
        return DEFAULT_QDOM[k]
    if k == 'BV':
        w = t[1]
        return sorted(set([0, 1, 2 ** w - 1, 2 ** (w - 1), 5 % 2 ** w]))
    if k == 'U':
        return [UVal(t[1], 0), UVal(t[1], 1)]
    if k == 'Array':
        return corner_values(t)[:3]
    raise EvalError('no quantification domain for %r' % (t,))


# --------------------------------------------------------------------------
# interpretations
# --------------------------------------------------------------------------
def interp_space(syms, limit=4096):
    """Number of joint values of the symbols if all finite, else None."""
    n = 1
    for (_, t) in syms:
        if t[0] == 'Fun':
            return None
        d = dom_size(t)
        if d is None:
            return None
        n *= d
        if n > limit:
            return None
    return n


def constant_pool(*bps):
    """Constants occurring in the blueprints, by sort (used to aim sampled
    interpretations at the values the formulas distinguish)."""
    pool = {}
    seen = set()

    def go(b):
        if id(b) in seen:
            return
        seen.add(id(b))
        op, pl, kids = b
        if op == 'int':
            for v in (pl, pl + 1, pl - 1):
                pool.setdefault(B.INT, set()).add(v)
            pool.setdefault(B.REAL, set()).add(Fraction(pl))
        elif op == 'real':
            pool.setdefault(B.REAL, set()).add(pl)
            pool.setdefault(B.REAL, set()).add(Fraction(float(pl)))
            if pl.denominator == 1:
                pool.setdefault(B.INT, set()).add(int(pl))
        elif op == 'str':
            pool.setdefault(B.STRING, set()).add(pl)
        elif op == 'bv':
            pool.setdefault(B.BV(pl[1]), set()).add(pl[0])
        for c in kids:
            go(c)
    for b in bps:
        go(b)
    return dict((t, sorted(vs, key=vrepr)) for t, vs in pool.items())


def interpretations(syms, rng, n_samples=32, limit=4096, seed=0, pool=None):
    """Yield (I, exhaustive) dictionaries name -> value for the symbols.

    All of them if the joint space is <= limit, else corner-first samples."""
    syms = sorted(syms)
    n = interp_space(syms, limit)
    if n is not None:
        doms = [all_values(t, limit) for (_, t) in syms]
        for combo in product(*doms):
            yield dict((s[0], v) for s, v in zip(syms, combo))
        return
    # sampled: corner rounds first
    def mk(chooser):
        I = {}
        for (name, t) in syms:
            if t[0] == 'Fun':
                I[name] = FunV(name, t, seed=chooser('seed', t))
            else:
                I[name] = chooser(name, t)
        return I
    count = 0
    # round r: every symbol takes its r-th corner value (equal values for
    # all symbols of a sort)
    for r in range(min(6, n_samples)):
        def ch(name, t, r=r):
            if name == 'seed':
                return seed * 1000 + r
            cv = corner_values(t)
            return cv[r % len(cv)]
        yield mk(ch)
        count += 1
    # constant-guided rounds: symbols take the constants of the formulas
    if pool:
        rounds = max(len(v) for v in pool.values())
        for r in range(min(rounds, max(4, n_samples // 3))):
            def ch3(name, t, r=r):
                if name == 'seed':
                    return seed * 1000 + 500 + r
                vs = pool.get(t)
                if vs:
                    return vs[(r + (zlib.crc32(name.encode()) % 3)) % len(vs)]
                return rand_value(t, rng)
            yield mk(ch3)
            count += 1
    while count < n_samples:
        c = count

        def ch2(name, t, c=c):
            if name == 'seed':
                return seed * 1000 + c
            return rand_value(t, rng)
        yield mk(ch2)
        count += 1


# --------------------------------------------------------------------------
# the evaluator
# --------------------------------------------------------------------------
def _tc(v, w):
    """two's complement signed value"""
    return v - 2 ** w if v >= 2 ** (w - 1) else v


def int_div(x, y):
    if y == 0:
        raise Unconstrained()
    if y > 0:
        return x // y
    return -(x // (-y))


def str_to_int(s):
    if s and all(c in '0123456789' for c in s):
        return int(s)
    return -1


def str_indexof(s, t, i):
    if i < 0 or i > len(s):
        return -1
    return s.find(t, i)


def str_substr(s, i, n):
    if 0 <= i < len(s) and n > 0:
        return s[i:i + min(n, len(s) - i)]
    return ''


def str_at(s, i):
    if 0 <= i < len(s):
        return s[i]
    return ''


def str_replace(s, t, t2):
    if t == '':
        return t2 + s
    return s.replace(t, t2, 1)


class Evaluator(object):
    """Evaluates blueprints under an interpretation I (name -> value)."""

    def __init__(self, I, D=None, max_steps=150000):
        self.I = I
        self.D = D
        self.tmemo = {}
        self.steps = 0
        self.max_steps = max_steps

    def ty(self, b):
        return B.typeof(b, self.tmemo)

    def ev(self, b, bound=None):
        # memoise per (node identity) only for closed-environment calls
        if bound is None:
            bound = {}
        return self._ev(b, bound, {})

    def _ev(self, b, bound, memo):
        k = id(b)
        if k in memo:
            return memo[k]
        r = self._ev1(b, bound, memo)
        memo[k] = r
        return r

    def _ev1(self, b, bound, memo):
        op, pl, kids = b
        self.steps += 1
        if self.steps > self.max_steps:
            raise TooExpensive()
        E = lambda c: self._ev(c, bound, memo)
        if op == 'sym':
            name = pl[0]
            if name in bound:
                return bound[name]
            if name not in self.I:
                raise EvalError('no value for symbol %r' % name)
            return self.I[name]
        if op in ('bool', 'int', 'real', 'str'):
            return pl
        if op == 'bv':
            return pl[0]
        if op == 'and':
            return all([E(c) for c in kids])
        if op == 'or':
            return any([E(c) for c in kids])
        if op == 'not':
            return not E(kids[0])
        if op == 'implies':
            a, c = E(kids[0]), E(kids[1])
            return (not a) or c
        if op == 'iff':
            return E(kids[0]) == E(kids[1])
        if op in ('forall', 'exists'):
            doms = [qdomain(t, self.D) for (_, t) in pl]
            res = (op == 'forall')
            unc = False
            for combo in product(*doms):
                nb = dict(bound)
                for (n, _), v in zip(pl, combo):
                    nb[n] = v
                try:
                    v = self._ev(kids[0], nb, {})
                except Unconstrained:
                    unc = True
                    continue
                if op == 'forall' and not v:
                    res = False
                if op == 'exists' and v:
                    res = True
            if unc:
                raise Unconstrained()
            return res
        if op == 'app':
            f = bound.get(pl[0], self.I.get(pl[0]))
            if f is None:
                raise EvalError('no interpretation for %r' % pl[0])
            return f(tuple(E(c) for c in kids))
        if op == 'plus':
            vs = [E(c) for c in kids]
            return sum(vs[1:], vs[0])
        if op == 'times':
            vs = [E(c) for c in kids]
            r = vs[0]
            for v in vs[1:]:
                r = r * v
            return r
        if op == 'minus':
            return E(kids[0]) - E(kids[1])
        if op == 'div':
            a, c = E(kids[0]), E(kids[1])
            if self.ty(kids[0]) == B.INT:
                return int_div(a, c)
            if c == 0:
                raise Unconstrained()
            return Fraction(a) / Fraction(c)
        if op == 'pow':
            a, c = E(kids[0]), E(kids[1])
            if Fraction(c).denominator != 1:
                raise Unconstrained()
            c = int(c)
            if c < 0:
                if a == 0:
                    raise Unconstrained()
                return Fraction(1) / (Fraction(a) ** (-c))
            return Fraction(a) ** c
        if op == 'le':
            return E(kids[0]) <= E(kids[1])
        if op == 'lt':
            return E(kids[0]) < E(kids[1])
        if op == 'eq':
            return E(kids[0]) == E(kids[1])
        if op == 'ite':
            # strict: a division by zero anywhere makes the case unconstrained
            c, a, b_ = E(kids[0]), E(kids[1]), E(kids[2])
            return a if c else b_
        if op == 'toreal':
            return Fraction(E(kids[0]))
        if op in B.BV_UN or op in B.BV_BIN_SAME or op in B.BV_REL or op in (
                'bvcomp', 'concat', 'extract', 'rol', 'ror', 'zext', 'sext',
                'bv2nat'):
            return self._bv(op, pl, kids, E)
        if op in B.STR_OPS:
            return self._str(op, kids, E)
        if op == 'select':
            return E(kids[0]).get(E(kids[1]))
        if op == 'store':
            return E(kids[0]).set(E(kids[1]), E(kids[2]))
        if op == 'arrayval':
            a = ArrV(pl, E(kids[0]))
            m = {}
            for i in range(1, len(kids), 2):
                m[E(kids[i])] = E(kids[i + 1])
            return ArrV(pl, a.default, m)
        raise EvalError('unknown op %r' % (op,))

    def _bv(self, op, pl, kids, E):
        w = self.ty(kids[0])[1]
        M = 2 ** w
        a = E(kids[0])
        if op == 'bvnot':
            return (M - 1) ^ a
        if op == 'bvneg':
            return (-a) % M
        if op == 'extract':
            s, e = pl
            return (a >> s) & (2 ** (e - s + 1) - 1)
        if op == 'rol':
            i = pl % w
            return ((a << i) | (a >> (w - i))) & (M - 1)
        if op == 'ror':
            i = pl % w
            return ((a >> i) | (a << (w - i))) & (M - 1)
        if op == 'zext':
            return a
        if op == 'sext':
            if a >= 2 ** (w - 1):
                return a + (2 ** (w + pl) - M)
            return a
        if op == 'bv2nat':
            return a
        b = E(kids[1])
        if op == 'concat':
            w2 = self.ty(kids[1])[1]
            return (a << w2) | b
        if op == 'bvand':
            return a & b
        if op == 'bvor':
            return a | b
        if op == 'bvxor':
            return a ^ b
        if op == 'bvadd':
            return (a + b) % M
        if op == 'bvsub':
            return (a - b) % M
        if op == 'bvmul':
            return (a * b) % M
        if op == 'bvudiv':
            return M - 1 if b == 0 else a // b
        if op == 'bvurem':
            return a if b == 0 else a % b
        if op == 'bvshl':
            return 0 if b >= w else (a << b) % M
        if op == 'bvlshr':
            return 0 if b >= w else a >> b
        if op == 'bvashr':
            sa = _tc(a, w)
            sh = min(b, w)
            return (sa >> sh) % M
        if op == 'bvsdiv':
            sa, sb = _tc(a, w), _tc(b, w)
            if sb == 0:
                return (M - 1) if sa >= 0 else 1
            q = abs(sa) // abs(sb)
            if (sa < 0) != (sb < 0):
                q = -q
            return q % M
        if op == 'bvsrem':
            sa, sb = _tc(a, w), _tc(b, w)
            if sb == 0:
                return a
            r = abs(sa) % abs(sb)
            if sa < 0:
                r = -r
            return r % M
        if op == 'bvult':
            return a < b
        if op == 'bvule':
            return a <= b
        if op == 'bvslt':
            return _tc(a, w) < _tc(b, w)
        if op == 'bvsle':
            return _tc(a, w) <= _tc(b, w)
        if op == 'bvcomp':
            return 1 if a == b else 0
        raise EvalError(op)

    def _str(self, op, kids, E):
        vs = [E(c) for c in kids]
        if op == 'strlen':
            return len(vs[0])
        if op == 'strconcat':
            return ''.join(vs)
        if op == 'strcontains':
            return vs[1] in vs[0]
        if op == 'strindexof':
            return str_indexof(*vs)
        if op == 'strreplace':
            return str_replace(*vs)
        if op == 'strsubstr':
            return str_substr(*vs)
        if op == 'strprefixof':
            return vs[1].startswith(vs[0])
        if op == 'strsuffixof':
            return vs[1].endswith(vs[0])
        if op == 'strtoint':
            return str_to_int(vs[0])
        if op == 'inttostr':
            return str(vs[0]) if vs[0] >= 0 else ''
        if op == 'strcharat':
            return str_at(vs[0], vs[1])
        raise EvalError(op)


def evaluate(b, I, D=None, max_steps=150000):
    return Evaluator(I, D, max_steps).ev(b)


class _OverBudget(Exception):
    pass


def _search(live, fs, order, dom, unconstrained_is_false, nodes, budget):
    """Backtracking over `order`; a formula is evaluated at the level where
    its last symbol gets a value."""
    pos = dict((s, k) for k, s in enumerate(order))
    ready = [[] for _ in range(len(order) + 1)]
    for i, b in enumerate(live):
        ready[max([pos[s] + 1 for s in fs[i]] or [0])].append(b)
    I = {}

    def holds(k):
        for b in ready[k]:
            nodes[0] += 1
            if budget is not None and nodes[0] > budget:
                raise _OverBudget()
            try:
                if not evaluate(b, I):
                    return False
            except Unconstrained:
                if not unconstrained_is_false:
                    raise
                return False
        return True

    def go(k):
        if not holds(k):
            return False
        if k == len(order):
            return True
        s = order[k]
        for v in dom[s]:
            I[s[0]] = v
            if go(k + 1):
                return True
        I.pop(s[0], None)
        return False

    return dict(I) if go(0) else None


def find_model(live, syms, doms, unconstrained_is_false=False,
               stats=None, first_budget=200000):
    """An interpretation of `syms` (values from `doms`, aligned with `syms`)
    under which every blueprint of `live` evaluates to true, or None when
    there is none.  A complete backtracking search: the same verdict as
    enumerating itertools.product(*doms), but a formula is evaluated as soon
    as the symbols it mentions have values and the branch is left when it is
    false, so a contradiction among a few symbols no longer costs the
    product of all the other domains.

    1. decide with the symbols ordered so that formulas complete early
       (cheapest unfinished formula first);
    2. when there is a model, look for the first one in the order of
       `syms` (the one plain enumeration returns) within `first_budget`
       formula evaluations; past the budget the model of step 1 is
       returned.  Both are models; step 2 only keeps the choice stable."""
    live = list(live)
    fs = [set(B.free_syms(b)) for b in live]
    dom = dict(zip(syms, doms))
    size = dict((s, max(1, len(d))) for s, d in dom.items())
    placed, order = set(), []
    todo = list(range(len(live)))
    while todo:
        def cost(i):
            c = 1
            for s in fs[i] - placed:
                c *= size[s]
            return (c, i)
        i = min(todo, key=cost)
        for s in sorted(fs[i] - placed):
            order.append(s)
            placed.add(s)
        todo = [j for j in todo if not fs[j] <= placed]
    order += [s for s in syms if s not in placed]
    nodes = [0]
    try:
        I = _search(live, fs, order, dom, unconstrained_is_false, nodes,
                    None)
        if I is not None and order != list(syms):
            n1 = nodes[0]
            nodes[0] = 0
            try:
                I = _search(live, fs, list(syms), dom,
                            unconstrained_is_false, nodes, first_budget)
            except _OverBudget:
                if stats is not None:
                    stats['first_model_over_budget'] = stats.get(
                        'first_model_over_budget', 0) + 1
            nodes[0] += n1
    finally:
        if stats is not None:
            stats['evaluations'] = stats.get('evaluations', 0) + nodes[0]
    return I


def value_to_bp(v, t):
    """Constant blueprint denoting value v of type t (for model building)."""
    k = t[0]
    if k == 'Bool':
        return B.Bool(v)
    if k == 'Int':
        return B.Int(v)
    if k == 'Real':
        return B.Real(v)
    if k == 'String':
        return B.Str(v)
    if k == 'BV':
        return B.BVc(v, t[1])
    if k == 'Array':
        d, m = v.default, v.m
        kids = [value_to_bp(d, t[2])]
        for kk in sorted(m, key=vrepr):
            if m[kk] != d:
                kids.append(value_to_bp(kk, t[1]))
                kids.append(value_to_bp(m[kk], t[2]))
        return ('arrayval', t[1], tuple(kids))
    raise EvalError('no constant for %r' % (t,))


def const_value(f):
    """Read the value of a constant FNode (incl. constant array values)
    through accessors -> evaluator value."""
    if f.is_array_value():
        it = B.from_pytype(f.array_value_index_type())
        d = const_value(f.array_value_default())
        m = {}
        for k, v in f.array_value_assigned_values_map().items():
            m[const_value(k)] = const_value(v)
        return ArrV(it, d, m)
    if f.is_bool_constant():
        return bool(f.constant_value())
    if f.is_int_constant():
        return int(f.constant_value())
    if f.is_real_constant():
        v = f.constant_value()
        return Fraction(int(v.numerator), int(v.denominator))
    if f.is_bv_constant():
        return int(f.constant_value())
    if f.is_string_constant():
        return f.constant_value()
    raise EvalError('not a constant: %s' % f)
