"""M6 - monitors attached to the real pySMT classes from the harness."""
import functools

from . import bp as B

COUNTS = {}
PENDING = []      # violations recorded by contracts: (name, info)
CURRENT_TEST = [None]   # set by vf/pytest_plugin.py
SUSPENDED = [False]     # contracts off while the harness misuses the API


def _count(name):
    COUNTS[name] = COUNTS.get(name, 0) + 1


class ContractBroken(Exception):
    pass


_installed = set()


def install_simplify_contract():
    """icontract post-condition on Simplifier.simplify: the result has the
    same (independently derived) type and no new free symbol.  Conditions
    record and return True so that the monitored call is never aborted."""
    if 'simplify' in _installed:
        return
    _installed.add('simplify')
    import icontract
    from pysmt.simplifier import Simplifier

    def same_type_no_new_symbols(self, formula, result):
        _count('simplify_contract')
        try:
            fb = B.describe(formula)
            rb = B.describe(result)
            t1, t2 = B.typeof(fb), B.typeof(rb)
            if t1 != t2:
                PENDING.append(('simplify:type', (fb, rb, t1, t2)))
            extra = B.free_syms(rb) - B.free_syms(fb)
            if extra:
                PENDING.append(('simplify:freesym', (fb, rb, sorted(extra))))
        except B.Undescribable:
            _count('simplify_contract_undescribable')
        except B.IllTyped as e:
            PENDING.append(('simplify:illtyped', (None, None, str(e))))
        return True

    Simplifier.simplify = icontract.ensure(
        same_type_no_new_symbols, error=ContractBroken)(Simplifier.simplify)


def install_substitute_contract():
    """icontract post-condition on Substituter.substitute: result type."""
    if 'substitute' in _installed:
        return
    _installed.add('substitute')
    import icontract
    from pysmt.substituter import Substituter

    def same_type(self, formula, result):
        if SUSPENDED[0]:
            return True      # a deliberately ill-typed map of the harness
        _count('substitute_contract')
        try:
            t1 = B.typeof(B.describe(formula))
            t2 = B.typeof(B.describe(result))
            if t1 != t2:
                PENDING.append(('substitute:type', (B.describe(formula),
                                                    B.describe(result),
                                                    t1, t2)))
        except (B.Undescribable, B.IllTyped):
            _count('substitute_contract_skipped')
        return True

    Substituter.substitute = icontract.ensure(
        same_type, error=ContractBroken)(Substituter.substitute)


# --------------------------------------------------------------------------
# create_node monitor (C03 typing of every node, C04 shadow hash-consing)
# --------------------------------------------------------------------------
class NodeMonitor(object):
    """Wraps FormulaManager.create_node.

    * C03: every node returned is typed independently from its children
      (O(1): children's types are memoised by node id per manager).
    * C04: a shadow table keyed by (node_type, ids of args, canonical payload)
      must agree with object identity.
    """

    def __init__(self):
        self.types = {}       # (id(mgr), node_id) -> type
        self.shadow = {}      # id(mgr) -> {key: node}
        self.byid = {}        # id(mgr) -> {node_id: key}
        self.problems = []
        self.nodes_typed = 0
        self.created = 0
        self.mgrs = {}        # id(mgr) -> weak reference
        self.tkeys = {}       # id(mgr) -> keys of self.types

    def forget(self, mid):
        """The manager is gone: drop its shadow tables (long workloads
        create thousands of environments)."""
        self.shadow.pop(mid, None)
        self.byid.pop(mid, None)
        self.mgrs.pop(mid, None)
        for k in self.tkeys.pop(mid, ()):
            self.types.pop(k, None)

    def install(self):
        if 'create_node' in _installed:
            return
        _installed.add('create_node')
        from pysmt.formula import FormulaManager
        orig = FormulaManager.create_node
        mon = self

        @functools.wraps(orig)
        def create_node(mgr, node_type, args, payload=None):
            n = orig(mgr, node_type, args, payload)
            k = len(mon.problems)
            try:
                mon.observe(mgr, node_type, args, payload, n)
            except Exception as e:     # monitor bug must not alter behaviour
                mon.problems.append(('monitor-exception', repr(e), None))
            if CURRENT_TEST[0] is not None and len(mon.problems) > k:
                mon.problems[k:] = [p + (CURRENT_TEST[0],)
                                    for p in mon.problems[k:]]
            return n

        FormulaManager.create_node = create_node

    def observe(self, mgr, node_type, args, payload, n):
        self.created += 1
        mid = id(mgr)
        if mid not in self.mgrs:
            import weakref
            try:
                self.mgrs[mid] = weakref.ref(
                    mgr, lambda _r, mid=mid: self.forget(mid))
            except TypeError:
                self.mgrs[mid] = mgr
        # ---- C04: shadow hash-consing
        key = (node_type, tuple(id(a) for a in args), _canon_payload(payload))
        sh = self.shadow.setdefault(mid, {})
        ids = self.byid.setdefault(mid, {})
        old = sh.get(key)
        if old is None:
            sh[key] = n
            prev = ids.get(n.node_id())
            if prev is not None and prev != key:
                self.problems.append((
                    'C04:same-object-for-different-structure',
                    'node id %d returned for %r and %r' % (
                        n.node_id(), prev, key), None))
            ids[n.node_id()] = key
        elif old is not n:
            self.problems.append((
                'C04:two-objects-for-one-structure',
                'create_node(%r) returned a second object' % (key,), None))
        # ---- accessors agree with the request
        if n.node_type() != node_type or n.args() != tuple(args):
            self.problems.append((
                'C04:accessor-mismatch', 'node_type/args differ from request',
                None))
        # ---- C03: independent typing
        tk = (mid, n.node_id())
        if tk in self.types:
            return
        try:
            t = self.type_node(mid, n)
        except B.IllTyped as e:
            self.problems.append(('C03:ill-typed-node-created',
                                  '%s' % e, _safe_describe(n)))
            return
        except B.Undescribable:
            return
        self.types[tk] = t
        self.tkeys.setdefault(mid, []).append(tk)
        self.nodes_typed += 1
        try:
            pt = B.from_pytype(mgr.env.stc.get_type(n))
        except Exception as e:
            self.problems.append(('C03:get_type-raises-on-existing-node',
                                  repr(e), _safe_describe(n)))
            return
        if pt != t:
            self.problems.append((
                'C03:reported-type-differs',
                'get_type=%r independent=%r' % (pt, t), _safe_describe(n)))

    def type_node(self, mid, n):
        tab = B._nt2op()
        nt = n.node_type()
        if nt not in tab:
            raise B.Undescribable(nt)
        kids = []
        for a in n.args():
            t = self.types.get((mid, a.node_id()))
            if t is None:
                t = self.type_node(mid, a)
                self.types[(mid, a.node_id())] = t
            kids.append(('sym', ('_', t), ()))
        one = B.describe_shallow(n, tuple(kids))
        return B.typeof(one)


def _safe_describe(n):
    try:
        return B.to_json(B.describe(n))
    except Exception:
        return None


def _canon_payload(p):
    from fractions import Fraction
    if p is None:
        return None
    if isinstance(p, tuple):
        return tuple(_canon_payload(x) for x in p)
    if isinstance(p, bool):
        return ('b', p)
    if isinstance(p, int):
        return ('i', int(p))
    if isinstance(p, Fraction):
        return ('q', p.numerator, p.denominator)
    if isinstance(p, str):
        return ('s', p)
    # FNode payload (function name), types: identity / structural repr
    try:
        from pysmt.fnode import FNode
        if isinstance(p, FNode):
            return ('n', id(p))
    except Exception:
        pass
    try:
        if hasattr(p, 'numerator') and hasattr(p, 'denominator'):
            return ('q', int(p.numerator), int(p.denominator))
    except Exception:
        pass
    return ('o', repr(p))


NODE_MONITOR = NodeMonitor()
