"""C19 - the portfolio answer is independent of the race and never blocks.

Every scenario is one process group (vf/c19_scenario.py): a real Portfolio
whose members are reference solver processes with a per-query delay and
failure mode, optional delay points inside Portfolio._solve / _run_solver,
cycles of assert / push / pop / solve / get_model / get_value.  This module
generates the scenarios and judges the recorded events."""
import json
import os
import random
import signal
import subprocess
import sys
import time

from . import bp as B
from . import common
from .c17 import World, truth

PROP = 'C19'
PY = '/venv/bin/python'
DELAYS = [0, 0, 1, 2, 5, 20, 100]
MEMBER_FAILURES = ('SolverReturnedUnknownResultError',
                   'UnknownSolverAnswerError', 'PysmtException')
FAIL_MODES = ['unknown', 'error', 'crash', 'garbage', 'broken']


def workdir():
    d = os.path.join(common.OUT, 'c19')
    os.makedirs(d, exist_ok=True)
    return d


def run_scenario(spec, tag, timeout=120):
    wd = workdir()
    path = os.path.join(wd, 'spec_%s.json' % tag)
    spec['plan_path'] = os.path.join(wd, 'plan_%s.json' % tag)
    with open(path, 'w') as f:
        json.dump(spec, f)
    env = dict(os.environ)
    p = subprocess.Popen([PY, '-m', 'vf.c19_scenario', path],
                         stdout=subprocess.PIPE, stderr=subprocess.PIPE,
                         cwd=common.VERIF, env=env, start_new_session=True)
    timed_out = False
    try:
        out, err = p.communicate(timeout=timeout)
    except subprocess.TimeoutExpired:
        timed_out = True
        try:
            os.killpg(p.pid, signal.SIGKILL)
        except OSError:
            pass
        out, err = p.communicate()
    finally:
        try:
            os.killpg(p.pid, signal.SIGKILL)
        except OSError:
            pass
    events = []
    for line in out.decode('utf-8', 'replace').splitlines():
        try:
            events.append(json.loads(line))
        except ValueError:
            pass
    import glob
    for f in [path] + glob.glob(spec['plan_path'] + '*'):
        try:
            os.unlink(f)
        except OSError:
            pass
    return events, timed_out, err.decode('utf-8', 'replace')[-600:]


# ---------------------------------------------------------------------------
# scenario generation
# ---------------------------------------------------------------------------
def flipping_cycles(rng, n):
    """Cycles of stack operations whose verdict keeps changing."""
    world = World(rng)
    world.hostile = []
    frames = [[]]
    cycles = []
    prev = None
    for _ in range(n):
        best = None
        for attempt in range(12):
            ops = []
            fr = [list(x) for x in frames]
            k = rng.choice([1, 1, 2])
            if rng.random() < 0.25:
                # a one-shot query on the same object, before the next
                # stack operations (it must leave the stack as it found it)
                ops.append(['is_sat', B.to_json(world.formula(2))])
            for _ in range(k):
                c = rng.random()
                if c < 0.25 and len(fr) > 1:
                    fr.pop()
                    ops.append(['pop'])
                elif c < 0.5:
                    fr.append([])
                    ops.append(['push'])
                else:
                    fb = world.formula(2)
                    fr[-1].append(fb)
                    ops.append(['assert', B.to_json(fb)])
            live = [b for x in fr for b in x]
            v = truth(live) is not None
            best = (ops, fr, v)
            if prev is None or v != prev or attempt > 8:
                break
        ops, frames, prev = best
        cycles.append({'ops': ops})
    return cycles


def member_plan(rng, members, kind, cycle_idx):
    """-> {name: {delay, mode}} for one query (members sharing a name:
    {name: [{delay, mode}, ...]}, one slot each)."""
    if len(set(m['name'] for m in members)) < len(members):
        slots = [{'name': 's%d' % i} for i in range(len(members))]
        flat = member_plan(rng, slots, kind, cycle_idx)
        plan = {}
        for m, sl in zip(members, slots):
            plan.setdefault(m['name'], []).append(flat[sl['name']])
        return plan
    plan = {}
    for m in members:
        plan[m['name']] = {'delay': rng.choice(DELAYS), 'mode': 'ok'}
    names = [m['name'] for m in members]
    if kind == 'tie':
        d = rng.choice(DELAYS)
        for n in names:
            plan[n]['delay'] = d
    elif kind == 'near':
        d = rng.choice([0, 1, 5, 20])
        for i, n in enumerate(names):
            plan[n]['delay'] = d + rng.choice([0, 1, 2])
    elif kind == 'faults':
        ok = rng.choice(names)
        for n in names:
            if n != ok and rng.random() < 0.7:
                plan[n]['mode'] = rng.choice(FAIL_MODES[:4] + ['hang',
                                                               'exit'])
        # the failing members tend to answer first
        if rng.random() < 0.7:
            plan[ok]['delay'] = rng.choice([5, 20, 100])
    elif kind == 'allfail':
        for n in names:
            plan[n]['mode'] = rng.choice(FAIL_MODES[:4])
    return plan


def flat_plan(plan):
    out = []
    for n, v in plan.items():
        for x in (v if isinstance(v, list) else [v]):
            out.append(dict(x, name=n))
    return out


def make_spec(rng, kind):
    n = rng.choice([2, 2, 3, 4])
    members = [{'name': 'm%d' % i} for i in range(n)]
    spec = {'members': members, 'kind': kind}
    if kind == 'dup':
        members = [{'name': 'm0'} for _ in range(n)]
        if rng.random() < 0.5:
            members.append({'name': 'm1'})
        spec['members'] = members
        spec['duplicate_names'] = True
    if kind in ('faults', 'allfail') and rng.random() < 0.3:
        # a member whose binary cannot be started at all
        members[rng.randrange(n)]['broken_binary'] = True
    if kind == 'allfail' and rng.random() < 0.25:
        for m in members:
            m['broken_binary'] = True
    spec['exit_on_exception'] = rng.choice([None, False, False, True]) \
        if kind in ('faults', 'allfail') else rng.choice([None, False])
    if rng.random() < 0.5:
        spec['gaps'] = {'parent': rng.choice([0, 2, 10, 40]),
                        'child': rng.choice([0, 2, 10, 40])}
    ncyc = rng.choice([2, 3, 4, 5]) if kind != 'allfail' else rng.choice(
        [1, 2])
    cycles = flipping_cycles(rng, ncyc)
    sub = {'order': ['free', 'tie', 'near'], 'faults': ['faults'],
           'allfail': ['allfail'], 'dup': ['free', 'tie', 'faults', 'faults'],
           'mixed': ['free', 'tie', 'near', 'faults', 'faults']}[kind]
    for i, c in enumerate(cycles):
        k = rng.choice(sub)
        c['plan'] = member_plan(rng, [m for m in spec['members']
                                      if not m.get('broken_binary')], k, i)
        c['plan_kind'] = k
        modes = [v['mode'] for v in flat_plan(c['plan'])]
        c['model'] = rng.random() < 0.7 and 'exit' not in modes
        c['value'] = rng.random() < 0.4 and 'exit' not in modes
    spec['cycles'] = cycles
    return spec


def make_shortcut_spec(rng):
    n = rng.choice([2, 3])
    members = [{'name': 'm%d' % i} for i in range(n)]
    world = World(rng)
    world.hostile = []
    cycles = []
    for _ in range(rng.choice([1, 2, 3])):
        fb = world.formula(3)
        k = rng.choice(['free', 'tie', 'near', 'faults'])
        cycles.append({'formula': B.to_json(fb),
                       'call': rng.choice(['is_sat', 'is_valid',
                                           'is_unsat']),
                       'plan': member_plan(rng, members, k, 0),
                       'plan_kind': k})
    return {'members': members, 'kind': 'shortcut', 'shortcut': True,
            'cycles': cycles}


# ---------------------------------------------------------------------------
# judging
# ---------------------------------------------------------------------------
def judge(rep, spec, events, timed_out, err):
    kind = spec['kind']
    brok = set(m['name'] for m in spec['members'] if m.get('broken_binary'))

    def bad(what, msg, ev=None):
        rep.violation('%s/%s' % (PROP, what),
                      '%s\n  scenario kind=%s members=%s exit_on_exception=%s'
                      ' gaps=%s\n  event=%s' % (
                          msg, kind, [m['name'] + ('(broken binary)' if
                                                   m.get('broken_binary')
                                                   else '')
                                      for m in spec['members']],
                          spec.get('exit_on_exception'), spec.get('gaps'),
                          json.dumps(ev)[:600]), {'spec': spec})

    done = any(e.get('ev') == 'done' for e in events)
    for e in events:
        ev = e.get('ev')
        if ev == 'harness-exception':
            rep.count('harness_exceptions')
            if len(rep.notes) < 3:
                rep.notes.append('scenario harness exception: %s' %
                                 e.get('msg', '')[-300:])
            return
    for e in events:
        ev = e.get('ev')
        plan = e.get('plan') or {}
        fp = flat_plan(plan)
        for n in brok:
            fp.append({'name': n, 'mode': 'broken'})
        answering = [x['name'] for x in fp if x.get('mode') in ('ok', 'exit')]
        failing = [x['name'] for x in fp
                   if x.get('mode') not in ('ok', 'exit', 'hang')]
        if ev == 'blocked':
            rep.count('blocked_calls')
            if e.get('despite_answer'):
                bad('blocks-despite-answer', 'Portfolio.solve() does not '
                    'return although a member published its answer 15 s '
                    'ago', e)
            else:
                bad('blocks-forever/all-members-failed' if kind == 'allfail'
                    else 'blocks-forever/%s' % kind,
                    'Portfolio.solve() waits although no member process is '
                    'left', e)
            return
        if ev == 'assertions':
            rep.count('assertion_stacks_compared')
            if not e['same']:
                bad('assertion-tracking', 'Portfolio.assertions differs '
                    'from the asserted stack', e)
        elif ev == 'solve':
            rep.count('verdicts_observed')
            if not answering:
                bad('verdict-without-answer', 'solve() returned %r although '
                    'every member failed' % e['got'], e)
            elif e['got'] != e['exp']:
                bad('wrong-verdict', 'solve() returned %r, the assertions '
                    'are %s' % (e['got'], 'sat' if e['exp'] else 'unsat'), e)
            if failing:
                rep.count('verdicts_with_failed_members')
            ds = sorted(x.get('delay', 0) for x in fp
                        if x.get('mode') in ('ok', 'exit'))
            if len(ds) >= 2 and ds[1] - ds[0] <= 2:
                rep.count('near_ties')
            if e.get('winner'):
                order = tuple(sorted((x.get('delay', 0), x.get('mode'))
                                     for x in fp))
                rep.distinct_winners.add((order, e['winner'],
                                          str(spec.get('gaps'))))
        elif ev == 'exit':
            rep.count('clean_exits')
        elif ev == 'exit-raised':
            bad('exit-raised/%s' % e.get('exc'), 'Portfolio.exit() raised '
                '%s: %s' % (e.get('exc'), e.get('msg')), e)
        elif ev == 'solve-raised':
            rep.count('solve_raised')
            if e.get('exc') not in MEMBER_FAILURES:
                bad('unexpected-exception/%s' % e.get('exc'),
                    'solve() raised %s: %s, which is not the failure of a '
                    'member' % (e.get('exc'), e.get('msg')), e)
            elif not answering:
                rep.count('all_failed_reported_error')
            elif spec.get('exit_on_exception') and failing:
                rep.count('exit_on_exception_raised')
            else:
                bad('raised-despite-answer/%s' % e.get('exc'),
                    'solve() raised %s: %s although members %s answer' % (
                        e.get('exc'), e.get('msg'), answering), e)
        elif ev == 'model':
            rep.count('models_checked')
            if not e['ok']:
                bad('model-does-not-satisfy', 'get_model() after sat does '
                    'not satisfy %s' % e.get('unsat_assertions'), e)
        elif ev == 'value':
            rep.count('values_checked')
            if not e['ok']:
                bad('value-does-not-satisfy', 'get_value(%s) = %s after sat'
                    % (e.get('term'), e.get('got')), e)
        elif ev in ('model-raised', 'value-raised'):
            bad('%s/%s' % (ev, e.get('exc')), '%s: %s' % (ev, e.get('msg')),
                e)
        elif ev == 'done':
            h = e.get('gap_hits') or {}
            rep.count('gap_parent_hits', h.get('parent', 0))
            rep.count('gap_child_hits', h.get('child', 0))
            if spec.get('gaps') and (spec['gaps'].get('parent') and
                                     not h.get('parent_line')):
                rep.count('gap_not_installed')
    if timed_out or not done:
        # a hang member keeps a scenario waiting legitimately only while an
        # answering member exists; everything else is decided above by the
        # liveness watch.  The outer timeout itself decides nothing.
        rep.count('scenarios_timed_out' if timed_out else
                  'scenarios_incomplete')
        if len(rep.notes) < 4:
            rep.notes.append('scenario %s: events=%s stderr=%s' % (
                'timed out' if timed_out else 'incomplete',
                [e.get('ev') for e in events][-6:], err[-200:]))
    else:
        rep.count('scenarios_completed')


def run(rep):
    rng = random.Random(rep.seed * 32452843 % (2 ** 31) + rep.shard)
    rep.distinct_winners = set()
    quick = rep.tier == 'quick'
    n = 20 if quick else 1500
    kinds = ['order', 'order', 'faults', 'faults', 'allfail', 'dup',
             'mixed', 'mixed', 'shortcut']
    j = 0
    while j < n and not rep.out_of_time():
        kind = kinds[(j + rep.shard) % len(kinds)]
        if rep.only and rep.only != kind:
            j += 1
            continue
        if kind == 'shortcut':
            spec = make_shortcut_spec(rng)
        else:
            spec = make_spec(rng, kind)
        tag = '%d_%d_%d' % (os.getpid(), rep.shard, j)
        events, timed_out, err = run_scenario(spec, tag)
        rep.case(key=json.dumps(spec, sort_keys=True),
                 sample=None if j % 17 else json.dumps(
                     {'kind': kind, 'members': spec['members'],
                      'plans': [c['plan'] for c in spec['cycles']]})[:300])
        rep.count('scenarios')
        rep.count('kind_' + kind)
        judge(rep, spec, events, timed_out, err)
        j += 1
    if j < n:
        rep.notes.append('truncated at %d of %d scenarios' % (j, n))
    rep.count('distinct_winner_orders', len(rep.distinct_winners))


def replay(case, rep):
    rep.distinct_winners = set()
    spec = case['case']['spec']
    for i in range(5):
        events, timed_out, err = run_scenario(spec, 'replay_%d_%d' % (
            os.getpid(), i))
        rep.case(key=i)
        judge(rep, spec, events, timed_out, err)
