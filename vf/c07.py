"""C07 - SMT-LIB export is well-formed and denotes the same thing."""
import random
import warnings
from fractions import Fraction
from io import StringIO

from . import bp as B
from . import gen as G
from . import judge as J
from . import monitors as M
from . import common
from . import refeval as R
from . import smtread as S
from .c04 import canon

PROP = 'C07'

NAME_ALPHABET = ('abcxyzABZ019_.-+*/<>=!?$%^&~@#;:,\'"`()[]{} \t'
                 'àéλжあ€')


def hostile_names(rng, n):
    """Printable strings except reserved words, theory symbols, literal
    spellings and names containing | or backslash."""
    fixed = ['.def_0', '.def_1', '.def_2', 'x y', 'a(b', ')', '(', ';c',
             'q"q', '#c01', '0abc', ':kw', 'a;b',
             'Int', 'Real', 'Bool', 'Array', 'x!1', 'λ', 'naïve', 'a\tb',
             "it's", 'a"b', 'A', 'a', 'p', '~', '<=>', '_x', 'a.b', '-x',
             '@v', 'é', ' lead', 'trail ', 'a  b', '{}', '[0]', 'ж1',
             'and_', 'not!', 'select1', 'bv1', 'par2']
    out = list(fixed)
    while len(out) < n:
        L = rng.randint(1, 6)
        out.append(''.join(rng.choice(NAME_ALPHABET) for _ in range(L)))
    ok = []
    seen = set()
    for s in out:
        if s in seen or not s or '|' in s or '\\' in s:
            continue
        if s in S.RESERVED or s in S.CORE_SYMBOLS or s in S.LEGACY or \
                s in ('pow', 'true', 'false', 'const', 'extract',
                      'zero_extend', 'sign_extend', 'rotate_left',
                      'rotate_right', 'repeat'):
            continue
        if '\n' in s or '\r' in s:
            continue
        # literal spellings (numerals, decimals, #b / #x, string literals)
        # are outside the property's name domain
        try:
            float(s)
            continue
        except ValueError:
            pass
        if (s.startswith('#b') or s.startswith('#x')) and len(s) > 2:
            continue
        if s.startswith('"') and s.endswith('"'):
            continue
        seen.add(s)
        ok.append(s)
    return ok


class FaultyStream(object):
    """A text stream that refuses its fail_at-th write (I/O fault)."""

    def __init__(self):
        self.parts = []
        self.fail_at = None
        self.nwrites = 0

    def write(self, s):
        if self.fail_at is not None:
            self.nwrites += 1
            if self.nwrites >= self.fail_at:
                raise IOError('injected: stream refuses the write')
        self.parts.append(s)
        return len(s)

    def getvalue(self):
        return ''.join(self.parts)

    def flush(self):
        pass


class Checker(object):
    def __init__(self, rep):
        self.rep = rep
        self.rng = random.Random(rep.seed * 179424673 % (2 ** 31) + rep.shard)
        self.sb = J.ShrinkBudget(rep, 25)

    def judge_once(self, how, b):
        from pysmt.environment import get_env
        from pysmt.smtlib.script import smtlibscript_from_formula
        env = get_env()
        try:
            with warnings.catch_warnings():
                warnings.simplefilter('ignore')
                f = B.build(b, env)
        except Exception as e:
            return 'build', repr(e)
        fb = canon(B.describe(f))
        try:
            ft = B.typeof(fb)
        except B.IllTyped as e:
            return 'build', str(e)
        decls = dict((n, t) for (n, t) in B.free_syms(fb))
        try:
            with warnings.catch_warnings():
                warnings.simplefilter('ignore')
                if how == 'tree':
                    text = f.to_smtlib(daggify=False)
                elif how == 'dag':
                    text = f.to_smtlib(daggify=True)
                elif how.endswith('-after-failure'):
                    # one printer object: a print that fails half-way (the
                    # stream refuses a write), then the formula
                    import pysmt.smtlib.printers as SP
                    st = FaultyStream()
                    pr = (SP.SmtDagPrinter if how.startswith('dag') else
                          SP.SmtPrinter)(st)
                    victim = env.formula_manager.And(
                        env.formula_manager.Not(f), f) \
                        if ft == B.BOOL else env.formula_manager.Equals(f, f)
                    self.nfail = getattr(self, 'nfail', 0) + 1
                    st.fail_at = 1 + (self.nfail * 7) % 23
                    try:
                        pr.printer(victim)
                        self.rep.count('printer_fault_not_reached')
                    except IOError:
                        self.rep.count('printer_faults_injected')
                    st.fail_at = None
                    pos = len(st.getvalue())
                    pr.printer(f)
                    text = st.getvalue()[pos:]
                elif how.startswith('multi'):
                    # one script, one assert per conjunct: the commands
                    # share sub-terms and one printer serializes them all
                    if ft != B.BOOL or not f.is_and() or len(f.args()) < 2:
                        return 'build', 'multi-assert scripts need a ' \
                            'conjunction'
                    from pysmt.smtlib.script import SmtLibCommand
                    import pysmt.smtlib.commands as smtcmd
                    sc = smtlibscript_from_formula(f)
                    cmds = []
                    for c in sc.commands:
                        if c.name == smtcmd.ASSERT:
                            for kid in f.args():
                                cmds.append(SmtLibCommand(smtcmd.ASSERT,
                                                          [kid]))
                        else:
                            cmds.append(c)
                    sc.commands = cmds
                    buf = StringIO()
                    sc.serialize(buf, daggify=(how == 'multi-dag'))
                    text = buf.getvalue()
                else:
                    if ft != B.BOOL:
                        return 'build', 'scripts assert Boolean formulas'
                    buf = StringIO()
                    smtlibscript_from_formula(f).serialize(
                        buf, daggify=(how == 'script-dag'))
                    text = buf.getvalue()
        except Exception as e:
            if 'NoLogicAvailable' in common.exc_name(e):
                return 'build', 'no logic'
            return 'exc:' + common.exc_name(e), '%s print of %s raised %r ' \
                'at %s' % (how, B.show(fb, 150), e, common.tb_short(e))
        # ---- read with the independent reader
        try:
            if how in ('tree', 'dag') or how.endswith('-after-failure'):
                # sorts used by the symbols must be known to the reader
                rb, rd = self.read_term(text, decls, fb)
            else:
                rd = S.read_script(text)
                live = rd.live_assertions()
                if how.startswith('multi'):
                    if len(live) != len(fb[2]):
                        return 'malformed', 'script has %d assertions for ' \
                            '%d conjuncts:\n%s' % (len(live), len(fb[2]),
                                                   text[:300])
                    rb = ('and', None, tuple(live))
                elif len(live) != 1:
                    return 'malformed', 'script has %d assertions:\n%s' % (
                        len(live), text[:300])
                else:
                    rb = live[0]
                # every symbol of the formula is declared with its type
                dd = rd.declared()
                for n, t in decls.items():
                    if dd.get(n) != t:
                        return 'malformed', (
                            'symbol %r declared as %r, formula has %r' % (
                                n, dd.get(n), t))
        except S.SmtError as e:
            if e.kind == 'unsupported':
                self.rep.count('reader_unsupported')
                return 'build', str(e)
            return 'malformed:' + e.kind, '%s print of %s is not well-formed ' \
                'SMT-LIB (%s):\n%s' % (how, B.show(fb, 150), e, text[:400])
        for (k, what) in rd.nonstandard:
            if k in ('legacy-symbol', 'non-smtlib-symbol'):
                # recorded by mechanism (the spelling), then reading goes on
                # with the standard meaning so that nothing else is masked
                self.rep.violation(
                    'C07/nonstandard-symbol/%s' % what,
                    'the printers spell an operator as %r, which is not an '
                    'SMT-LIB 2.6 symbol (e.g. %s)' % (what, text[:160]),
                    {'bp': B.to_json(fb), 'how': how, 'kind': 'nonstandard'})
        try:
            if B.typeof(rb) != ft:
                return 'sort', 'text has sort %r, formula %r:\n%s' % (
                    B.typeof(rb), ft, text[:300])
        except B.IllTyped as e:
            return 'malformed:ill-sorted', str(e)
        v, info = J.compare(fb, rb, self.rng, n_samples=16,
                            seed=self.rep.seed)
        if v == 'diff':
            return 'value', '%s print of %s reads as %s; under %s: %s vs %s' \
                '\n%s' % (how, B.show(fb, 150), B.show(rb, 150), info['I'],
                          info['v1'], info['v2'], text[:300])
        if v == 'eq':
            self.rep.count('texts_compared')
            self.rep.count('how_' + how)
            self.rep.count('interpretations', info['n'])
        return None, None

    def read_term(self, text, decls, fb):
        r = S.Reader()
        r.logic = S.Logic(None)
        # declare the custom sorts
        for t in B.types_in(fb):
            self.declare_sorts(r, t)
        for n, t in decls.items():
            self.declare_sorts(r, t)
            r.fun_levels[0][n] = ('decl', t)
        xs = S.parse_sexprs(S.tokenize(text))
        if len(xs) != 1:
            raise S.SmtError('syntax', '%d terms printed' % len(xs))
        b = r.term(xs[0], {})
        r.typ(b)
        return b, r

    def declare_sorts(self, r, t):
        if t[0] == 'U':
            r.sort_levels[0][t[1]] = len(t[2]) if len(t) > 2 else 0
            for a in (t[2] if len(t) > 2 else ()):
                self.declare_sorts(r, a)
        elif t[0] == 'Array':
            self.declare_sorts(r, t[1])
            self.declare_sorts(r, t[2])
        elif t[0] == 'Fun':
            self.declare_sorts(r, t[1])
            for p in t[2]:
                self.declare_sorts(r, p)

    def check(self, how, b, j):
        rep = self.rep
        kind, info = self.judge_once(how, b)
        rep.case(key=hash((how, b)), sample='%s: %s' % (how, B.show(b, 120))
                 if j % 409 == 0 else None)
        if kind is None:
            return
        if kind == 'build':
            rep.count('build_rejected_or_outside')
            return

        def fails(x):
            return self.judge_once(how, x)[0] == kind
        # one mechanism of its own: the name of a declared sort is written
        # verbatim (a recorded finding), whatever the formula around it
        if kind.startswith('malformed'):
            def unames(t, acc):
                if t[0] == 'U':
                    acc.append(t[1])
                for x in t[1:]:
                    if isinstance(x, tuple) and x and isinstance(x[0], str):
                        unames(x, acc)
                    elif isinstance(x, tuple):
                        for y in x:
                            if isinstance(y, tuple) and y and \
                                    isinstance(y[0], str):
                                unames(y, acc)
                return acc
            needs = [n for t in B.types_in(b) for n in unames(t, [])
                     if any(ch in n for ch in ' ;()#|"') or n[:1].isdigit()]
            if needs:
                rep.violation('C07/sort-name-not-quoted',
                              '%s print: the declared sort %r is written '
                              'without quotes: %s' % (how, needs[0], info),
                              {'bp': B.to_json(b), 'how': how, 'kind': kind})
                return
        key, m = self.sb.classify(PROP, how, kind, b, fails)
        what = info
        if m is not None and m is not b:
            what = 'minimal: %s' % (self.judge_once(how, m)[1],)
        rep.violation(key, '%s: %s' % (kind, what), {
            'bp': B.to_json(m if m is not None else b), 'how': how,
            'kind': kind})


def special_cases(names):
    out = []
    p = B.Sym('p', B.BOOL)
    d0 = B.Sym('.def_0', B.BOOL)
    d1 = B.Sym('.def_1', B.BOOL)
    d2 = B.Sym('.def_2', B.INT)
    x = B.Sym('x', B.INT)
    out += [
        ('and', None, (('or', None, (d0, d1)), ('or', None, (d0, d1)), p)),
        ('and', None, (('or', None, (d0, p)), ('not', None, (
            ('or', None, (d0, p)),)), d1)),
        ('forall', (('.def_0', B.BOOL),), (('or', None, (
            ('and', None, (d0, d1)), ('and', None, (d0, d1)))),)),
        ('exists', (('.def_2', B.INT),), (('le', None, (
            ('plus', None, (d2, x)), ('plus', None, (d2, x)))),)),
        ('le', None, (B.Int(-5), x)), ('le', None, (B.Int(10 ** 200), x)),
        ('le', None, (B.Real(Fraction(-7, 3)), B.Sym('r', B.REAL))),
        ('le', None, (B.Real(Fraction(10 ** 25 + 3, 10 ** 30 + 7)),
                      B.Sym('r', B.REAL))),
        ('le', None, (B.Real(2 ** 53 + 1), B.Sym('r', B.REAL))),
        ('le', None, (B.Real(-(10 ** 20 + 7)), B.Sym('r', B.REAL))),
        ('eq', None, (B.Str('a"b""c'), B.Sym('s', B.STRING))),
        ('eq', None, (B.Str(''), B.Sym('s', B.STRING))),
        ('eq', None, (('div', None, (x, B.Int(3))), B.Int(2))),
        ('eq', None, (('div', None, (x, B.Sym('y', B.INT))), B.Int(2))),
        ('eq', None, (('div', None, (B.Sym('r', B.REAL),
                                     B.Sym('r2', B.REAL))), B.Real(2))),
        ('eq', None, (('arrayval', B.INT, (B.Int(0), B.Int(1), B.Int(5),
                                           B.Int(-2), B.Int(7))),
                      B.Sym('a', G.A_II))),
        ('eq', None, (('arrayval', B.INT, (
            ('arrayval', B.INT, (B.Int(3),)),)),
            B.Sym('aa', B.ARR(B.INT, G.A_II)))),
        ('eq', None, (('arrayval', B.BV(2), (B.Bool(True), B.BVc(1, 2),
                                             B.Bool(False))),
                      B.Sym('ab', B.ARR(B.BV(2), B.BOOL)))),
    ]
    # parametric declared sort used at two instances
    P1 = ('U', 'Pair', (B.INT, B.BOOL))
    P2 = ('U', 'Pair', (B.REAL, B.REAL))
    out.append(('and', None, (
        ('eq', None, (B.Sym('q1', P1), B.Sym('q2', P1))),
        ('eq', None, (B.Sym('q3', P2), B.Sym('q4', P2))))))
    # several custom sorts in one formula: parametric constructors at two
    # or more instances (also nested in each other and in arrays) next to
    # plain sorts, in many orders: each must be declared once, before use
    srng = random.Random(7)
    UA, UB, UX = ('U', 'SA'), ('U', 'SB'), ('U', 'SX')
    pool = [UA, UB, UX, ('U', 'P1', (UA,)), ('U', 'P1', (UB,)),
            ('U', 'P1', (B.INT,)), ('U', 'Pair', (UX, UA)),
            ('U', 'Pair', (('U', 'P1', (UA,)), ('U', 'P1', (UB,)))),
            ('U', 'P1', (('U', 'P1', (UX,)),)),
            B.ARR(UX, B.ARR(('U', 'P1', (UA,)), ('U', 'P1', (UB,)))),
            B.ARR(('U', 'P1', (UA,)), ('U', 'Pair', (B.INT, UX))),
            B.ARR(('U', 'Pair', (UB, UB)), UX)]
    for i in range(36):
        ts = srng.sample(pool, srng.randint(1, 4))
        cj = [('eq', None, (B.Sym('m%d_%d' % (k, 0), t),
                            B.Sym('m%d_%d' % (k, 1), t)))
              for k, t in enumerate(ts)]
        if i % 3 == 0:
            cj[0] = ('not', None, (cj[0],))
        out.append(('and', None, tuple(cj + [p])))
    # declared sorts whose names need quoting
    for sn in ('my sort', 'S;T', '0S', 'a(b', 'Sort#1', 'x y z'):
        st = ('U', sn)
        out.append(('and', None, (('eq', None, (B.Sym('hs_a', st),
                                                B.Sym('hs_b', st))), p)))
        out.append(('forall', (('hs_q', st),), (
            ('eq', None, (B.Sym('hs_q', st), B.Sym('hs_b', st))),)))
        out.append(('eq', None, (B.Sym('hs_c', ('U', 'Box', (st,))),
                                 B.Sym('hs_d', ('U', 'Box', (st,))))))
    # sorts that occur only in a binder
    for qt in (('U', 'OnlyBound'), B.ARR(('U', 'OnlyIdx'), B.INT),
               ('U', 'Pair', (('U', 'OnlyArg'), B.INT)), B.BV(5)):
        out.append(('forall', (('qonly', qt),), (p,)))
        out.append(('and', None, (p, ('exists', (('qonly', qt), ('q2', B.INT)),
                                      (('le', None, (B.Sym('q2', B.INT),
                                                     x)),)))))
    # a sort that occurs only as the index sort of an array literal
    out.append(('eq', None, (('arrayval', ('U', 'OnlyLitIndex'), (B.Int(0),)),
                             ('arrayval', ('U', 'OnlyLitIndex'),
                              (B.Int(1),)))))
    # conjunctions whose conjuncts share compound sub-terms
    sh = ('plus', None, (x, ('times', None, (B.Int(3), x))))
    out.append(('and', None, (('le', None, (sh, B.Int(7))),
                              ('le', None, (B.Int(-2), sh)),
                              ('not', None, (('eq', None, (sh, x)),)))))
    shb = ('or', None, (d0, ('and', None, (p, d1))))
    out.append(('and', None, (shb, ('implies', None, (shb, p)),
                              ('iff', None, (shb, d1)))))
    fS = B.FUN(G.US, (G.US,))
    out.append(('eq', None, (B.App('f', fS, (B.App('f', fS, (
        B.Sym('u', G.US),)),)), B.Sym('u', G.US))))
    gS = B.FUN(B.BOOL, (B.INT,))
    hS = B.FUN(B.INT, (G.US,))
    out.append(B.App('g', gS, (B.App('h', hS, (B.Sym('u', G.US),)),)))
    # hostile names, all sorts
    for i, n in enumerate(names[:60]):
        t = [B.BOOL, B.INT, B.BV(4), B.STRING][i % 4]
        s = B.Sym(n, t)
        if t == B.BOOL:
            out.append(('and', None, (s, ('not', None, (s,)))))
        elif t == B.INT:
            out.append(('le', None, (('plus', None, (s, B.Int(1))), s)))
        elif t == B.STRING:
            out.append(('eq', None, (s, B.Str(n))))
        else:
            out.append(('bvult', None, (s, ('bvadd', None, (s, s)))))
        if i % 5 == 0:
            ft = B.FUN(B.BOOL, (B.INT,))
            out.append(B.App(n + 'f', ft, (B.Int(i),)))
        if i % 7 == 0:
            out.append(('forall', ((n + 'q', B.INT),), (
                ('le', None, (B.Sym(n + 'q', B.INT), x)),)))
    return out


def run(rep):
    M.NODE_MONITOR.install()
    ck = Checker(rep)
    rng = ck.rng
    quick = rep.tier == 'quick'
    names = hostile_names(random.Random(rep.seed + 11), 160)
    hows = ['tree', 'dag', 'script-tree', 'script-dag', 'multi-dag',
            'multi-tree']
    j = 0
    common.fresh_env()
    for i, b in enumerate(special_cases(names)):
        if i % rep.nshards != rep.shard:
            continue
        for how in hows:
            if rep.only and rep.only != how:
                continue
            ck.check(how, b, j)
            j += 1
    # names SMT-LIB has no spelling for (a bar or a backslash in them):
    # the text must read back, under pySMT's documented escapes (\\\\ and
    # \\|), with the very names of the formula
    esc = ['a\\b', 'x\\', '\\', 'c:\\dir\\file', 'a|b', '|', 'p\\|q',
           '\\\\', 'a\\|', '|\\', 'tab\\t', 'n\\n x', '\\|\\|']
    S.PYSMT_ESCAPES[0] = True
    try:
        for i, n in enumerate(esc):
            if i % rep.nshards != rep.shard:
                continue
            sb_, si_ = B.Sym(n, B.BOOL), B.Sym(n, B.INT)
            cases = [
                ('and', None, (sb_, ('not', None, (sb_,)), B.Sym('p',
                                                                 B.BOOL))),
                ('le', None, (('plus', None, (si_, B.Int(1))), si_)),
                B.App(n, B.FUN(B.BOOL, (B.INT,)), (B.Int(i),)),
                ('forall', ((n, B.INT),), (('le', None, (si_, B.Sym(
                    'x', B.INT))),)),
                ('and', None, (('or', None, (sb_, B.Sym('q', B.BOOL))),
                               ('or', None, (sb_, B.Sym('q', B.BOOL))),
                               sb_)),
            ]
            for b in cases:
                for how in hows:
                    if rep.only and rep.only != how:
                        continue
                    ck.check(how, b, j)
                    rep.count('escaped_name_cases')
                    j += 1
    finally:
        S.PYSMT_ESCAPES[0] = False
    # the text a solver object sends is SMT-LIB export too: histories of
    # the text-interface checker over declared sorts (assert, push / pop,
    # reset_assertions), judged by the strict reference solver
    if not rep.only or rep.only == 'solver-stream':
        from . import c17

        class ExportHistory(c17.History):
            def bad(self, what, msg):
                self.rep.violation(
                    'C07/solver-stream/%s' % what,
                    '%s\n  history: %s' % (msg, self.trace[-12:]),
                    {'trace': [str(t) for t in self.trace]})
        hrng = random.Random(rep.seed * 7919 + rep.shard)
        for hi in range(3 if quick else 40):
            if rep.out_of_time():
                break
            # (index = 3 mod 4: the histories that use declared sorts)
            ExportHistory(rep, hrng, 4 * (hi * rep.nshards + rep.shard) + 3
                          ).run(14)
            rep.count('solver_stream_histories')
        common.fresh_env()
    # every operator with systematic operand shapes
    rep.share(0.4)
    sysl = [b for (_, _, b) in G.systematic(
        random.Random(rep.seed * 3 + 1), nconst=3, max_per_sig=20 if quick
        else 200)]
    for i, b in enumerate(sysl):
        if i % rep.nshards != rep.shard or rep.out_of_time():
            continue
        if i % 500 == 0:
            common.fresh_env()
        for how in ('tree', 'dag'):
            if rep.only and rep.only != how:
                continue
            ck.check(how, b, j)
            j += 1
    n = 250 if quick else 40000
    k = 0
    rep.share(1.0)
    while k < n and not rep.out_of_time():
        if k % 100 == 0:
            common.fresh_env()
        hostile = (k % 3 == 0)
        defnames = (k % 7 == 3)
        cfg = [G.Cfg(share=0.45, max_depth=5),
               G.Cfg(share=0.45, quant=False),
               G.Cfg(share=0.5, max_depth=4, strings=False)][k % 3]
        if hostile:
            rng.shuffle(names)
            cfg.names = list(names[:40])
            cfg.nsyms = 2
        if defnames:
            # user symbols that look like the printer's let names
            cfg = G.Cfg(share=0.5, max_depth=4, quant=(k % 2 == 0),
                        strings=False, arrays=False, uf=False, custom=False,
                        names=['.def_%d' % i for i in range(8)], nsyms=2)
        g = G.Gen(rng, cfg)
        b = g.term(B.BOOL)
        for how in hows + (['dag-after-failure', 'tree-after-failure']
                           if k % 4 == 0 else []):
            if rep.only and rep.only != how:
                continue
            ck.check(how, b, j)
            j += 1
        k += 1
    if k < n:
        rep.notes.append('random workload truncated at %d of %d' % (k, n))


def replay(case, rep):
    common.fresh_env()
    ck = Checker(rep)
    c = case['case']
    ck.check(c['how'], B.from_json(c['bp']), 0)
