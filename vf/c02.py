"""C02 - model evaluation (EagerModel) returns the exact value."""
import random
from fractions import Fraction

from . import bp as B
from . import gen as G
from . import judge as J
from . import monitors as M
from . import common
from . import refeval as R
from . import c01

PROP = 'C02'

DEFAULTABLE = ('Bool', 'Int', 'Real', 'BV')


def default_of(t):
    k = t[0]
    if k == 'Bool':
        return False
    if k == 'Int':
        return 0
    if k == 'Real':
        from fractions import Fraction
        return Fraction(0)
    if k == 'BV':
        return 0
    return None


def abstract_consts(b):
    """Replace constant leaves by symbols; return (b', assignment).

    Constants that pySMT requires to be literal (array-value indexes, Pow
    exponents) stay."""
    A = {}
    names = {}

    def go(x, keep=False):
        op, pl, kids = x
        if op in ('bool', 'int', 'real', 'str', 'bv'):
            if keep:
                return x
            t = B.typeof(x)
            key = (t, pl)
            if key not in names:
                names[key] = 'k%s%d' % (G.sym_name(t), len(names))
            A[names[key]] = (pl[0] if op == 'bv' else pl)
            return B.Sym(names[key], t)
        if op == 'arrayval':
            nk = [go(kids[0], keep)]
            for i in range(1, len(kids), 2):
                nk.append(go(kids[i], True))
                nk.append(go(kids[i + 1], keep))
            return (op, pl, tuple(nk))
        if op == 'pow':
            return (op, pl, (go(kids[0], keep), go(kids[1], True)))
        return (op, pl, tuple(go(c, keep) for c in kids))
    return go(b), A


def install_contract():
    if 'eager' in M._installed:
        return
    M._installed.add('eager')
    import icontract
    from pysmt.solvers.eager import EagerModel

    def result_is_constant_of_same_type(self, formula, result):
        if M.SUSPENDED[0]:
            return True      # an ill-sorted model handed in by the harness
        M._count('get_value_contract')
        try:
            t1 = B.typeof(B.describe(formula))
            t2 = B.typeof(B.describe(result))
            if t1 != t2 or not result.is_constant():
                M.PENDING.append(('get_value:type', (
                    B.describe(formula), B.describe(result), t1, t2)))
        except (B.Undescribable, B.IllTyped):
            pass
        return True

    EagerModel.get_value = icontract.ensure(
        result_is_constant_of_same_type,
        error=M.ContractBroken)(EagerModel.get_value)


class Checker(object):
    def __init__(self, rep):
        self.rep = rep
        self.rng = random.Random(rep.seed * 15485863 + rep.shard)
        self.sb = J.ShrinkBudget(rep, 30)

    def make_model(self, A, types, env):
        from pysmt.solvers.eager import EagerModel
        asg = {}
        for name, v in A.items():
            t = types[name]
            s = env.formula_manager.Symbol(name, B.to_pytype(t, env))
            asg[s] = B.build(R.value_to_bp(v, t), env)
        self.nmodels = getattr(self, 'nmodels', 0) + 1
        # the assignment is handed over in every form dict() accepts: a
        # dictionary, a list of pairs, a one-shot iterator of pairs,
        # another model
        form = (self.nmodels // 3) % 5
        if form == 1:
            model = EagerModel(list(asg.items()), env)
        elif form == 2:
            model = EagerModel(zip(list(asg.keys()), list(asg.values())),
                               env)
        elif form == 3:
            model = EagerModel((kv for kv in list(asg.items())), env)
        elif form == 4:
            model = EagerModel(iter(EagerModel(asg, env)), env)
        else:
            model = EagerModel(asg, env)
        self.rep.count('model_built_from_form_%d' % form)
        # the caller goes on using its own dictionary: the model is the
        # assignment it was given, not whatever the dictionary becomes
        if self.nmodels % 3 == 1:
            asg.clear()
            self.rep.count('caller_dict_mutated_after_model')
        elif self.nmodels % 3 == 2:
            for s in list(asg):
                d = default_of(B.from_pytype(s.symbol_type()))
                if d is not None:
                    asg[s] = B.build(R.value_to_bp(
                        d, B.from_pytype(s.symbol_type())), env)
            self.rep.count('caller_dict_mutated_after_model')
        return model

    def judge_once(self, b, A, partial_drop=()):
        """b: QF UF-free blueprint over symbols; A: name -> value (total).
        partial_drop: names removed from the model.
        -> (kind, info) or (None, None)."""
        from pysmt.environment import get_env
        env = get_env()
        try:
            f = B.build(b, env)
        except Exception as e:
            return 'build', repr(e)
        fb = B.describe(f)
        try:
            ft = B.typeof(fb)
        except B.IllTyped as e:
            return 'build', str(e)
        syms = dict(B.free_syms(fb))
        Afull = {n: A[n] for n in syms}
        Apart = {n: v for n, v in Afull.items() if n not in partial_drop}
        missing = [n for n in syms if n not in Apart]
        try:
            model = self.make_model(Apart, syms, env)
        except Exception as e:
            return 'build', 'model: %r' % (e,)
        # ---- with completion
        Acomp = dict(Apart)
        uncompletable = False
        for n in missing:
            d = default_of(syms[n])
            if d is None:
                uncompletable = True
            else:
                Acomp[n] = d
        expected = None
        unconstrained = False
        if not uncompletable:
            try:
                expected = R.evaluate(fb, Acomp)
            except R.Unconstrained:
                unconstrained = True
        got = exc = None
        try:
            got = model.get_value(f, model_completion=True)
        except Exception as e:
            exc = e
        if uncompletable or unconstrained:
            self.rep.count('completion_not_defined')
        else:
            if exc is not None:
                return 'exc:' + common.exc_name(exc), \
                    'get_value raised %r at %s (expected %s)' % (
                        exc, common.tb_short(exc), R.vrepr(expected))
            if not got.is_constant():
                return 'nonconst', 'get_value returned %s' % got
            gv = R.const_value(got)
            if B.from_pytype(got.get_type()) != ft:
                return 'type', 'value %s has type %s, formula %r' % (
                    got, got.get_type(), ft)
            if gv != expected:
                return 'value', '%s under %s: got %s expected %s' % (
                    B.show(fb, 200), {k: R.vrepr(v) for k, v in Acomp.items()},
                    R.vrepr(gv), R.vrepr(expected))
            self.rep.count('values_compared')
            # get_py_value / __getitem__
            try:
                pv = model.get_py_value(f)
                gi = model[f]
            except Exception as e:
                return 'exc:' + common.exc_name(e), 'get_py_value/[]: %r' % e
            if gi is not got:
                return 'getitem', '__getitem__ %s differs from get_value %s' \
                    % (gi, got)
            if ft[0] != 'Array':
                if pv != expected or (ft == B.BOOL and pv is not expected):
                    return 'pyvalue', 'get_py_value %r expected %r' % (
                        pv, expected)
            # satisfies
            if ft == B.BOOL:
                try:
                    sat = model.satisfies(f)
                except Exception as e:
                    return 'exc:' + common.exc_name(e), 'satisfies: %r' % e
                if sat is not expected:
                    return 'satisfies', '%s under %s: satisfies=%r value=%r' \
                        % (B.show(fb, 200), Acomp, sat, expected)
                self.rep.count('satisfies_compared')
        # ---- without completion
        if not missing and exc is None and not (uncompletable or
                                                unconstrained):
            try:
                got_nc = model.get_value(f, model_completion=False)
            except Exception as e:
                return 'exc:' + common.exc_name(e), (
                    'get_value(model_completion=False) raised %r although '
                    'the model assigns every symbol' % (e,))
            if got_nc is not got:
                return 'nocompletion-total', (
                    '%s: %s without completion, %s with, in a model that '
                    'assigns every symbol' % (B.show(fb, 150), got_nc, got))
            self.rep.count('nocompletion_total_models')
        if missing:
            got2 = exc2 = None
            try:
                got2 = model.get_value(f, model_completion=False)
            except Exception as e:
                exc2 = e
            # the other entry points must behave like get_value
            for ep in ('get_py_value', 'get_values', 'get_py_values'):
                r3 = e3 = None
                try:
                    if ep == 'get_py_value':
                        r3 = model.get_py_value(f, model_completion=False)
                    elif ep == 'get_values':
                        r3 = model.get_values([f], model_completion=False)[f]
                    else:
                        r3 = model.get_py_values(
                            [f], model_completion=False)[f]
                except Exception as e:
                    e3 = e
                self.rep.count('nocompletion_entry_points')
                if (e3 is None) != (exc2 is None):
                    return 'entry-point:' + ep, (
                        '%s(model_completion=False) %s although get_value %s'
                        ' (%s with %s missing)' % (
                            ep, 'raised %r' % e3 if e3 is not None else
                            'returned %r' % (r3,),
                            'raised %r' % exc2 if exc2 is not None else
                            'returned %s' % got2, B.show(fb, 120), missing))
                if e3 is None and ep == 'get_values' and r3 is not got2:
                    return 'entry-point:' + ep, 'get_values %s vs %s' % (
                        r3, got2)
            if exc2 is None:
                if not got2.is_constant():
                    return 'nonconst', 'no-completion returned %s' % got2
                gv2 = R.const_value(got2)
                # must hold for every completion
                msyms = [(n, syms[n]) for n in missing]
                ncomp = 0
                for I in R.interpretations(msyms, self.rng, n_samples=8,
                                           limit=64):
                    AA = dict(Apart)
                    AA.update(I)
                    try:
                        ev = R.evaluate(fb, AA)
                    except R.Unconstrained:
                        continue
                    ncomp += 1
                    if ev != gv2:
                        return 'nocompletion', (
                            '%s with %s missing: returned %s but completion '
                            '%s gives %s' % (B.show(fb, 200), missing,
                                             R.vrepr(gv2), I, R.vrepr(ev)))
                self.rep.count('nocompletion_values_checked')
            else:
                self.rep.count('nocompletion_raised')
            # the no-completion call must not have disturbed completion
            if not (uncompletable or unconstrained):
                try:
                    again = model.get_value(f, model_completion=True)
                except Exception as e:
                    return 'exc:' + common.exc_name(e), 'second call: %r' % e
                if again is not got:
                    return 'unstable', 'second completed call differs'
        return None, None

    def check(self, wl, b, A, drop=()):
        rep = self.rep
        kind, info = self.judge_once(b, A, drop)
        rep.case(key=hash((b, tuple(sorted(drop)))),
                 sample='%s  with %s' % (B.show(b, 120), {
                     k: R.vrepr(v) for k, v in list(A.items())[:4]})
                 if rep.evaluations % 1499 == 0 else None)
        rep.count('wl_' + wl)
        rep.count('op_' + b[0])
        if kind is None:
            return
        if kind == 'build':
            rep.count('build_rejected')
            return
        # shrink only formulas that do not mention the dropped symbols, so
        # that the assignment stays meaningful
        def fails(x):
            return self.judge_once(x, A, drop)[0] == kind
        if kind == 'value' and any(
                x[0] == 'arrayval' and x[1][0] == 'Array'
                for x in B.subterms(b)):
            # one mechanism (recorded, see C01): literals indexed by array
            # literals are looked up by object identity
            rep.violation(
                'C02/get_value/value/array-literal-indexed-by-arrays',
                '%s: %s' % (kind, info), {'bp': B.to_json(b), 'kind': kind})
            return
        key, m = self.sb.classify(PROP, 'get_value', kind, b, fails)
        what = info
        if m is not None and m is not b:
            what = 'minimal %s :: %s' % (B.show(m, 150),
                                         self.judge_once(m, A, drop)[1])
        rep.violation(key, '%s: %s' % (kind, what), {
            'bp': B.to_json(m if m is not None else b), 'kind': kind,
            'A': {k: repr(v) for k, v in A.items()}, 'drop': list(drop)})


def total_assignment(b, rng, corner=False):
    A = {}
    for (n, t) in sorted(B.free_syms(b)):
        if corner:
            cv = R.corner_values(t)
            A[n] = cv[rng.randrange(len(cv))]
        else:
            A[n] = R.rand_value(t, rng)
    return A


def run(rep):
    install_contract()
    M.install_simplify_contract()
    M.NODE_MONITOR.install()
    common.fresh_env()
    ck = Checker(rep)
    rng = ck.rng
    # --- every constant-operand case of C01, with the constants moved into
    #     the model
    for wl, i, b in c01.workloads(rep):
        if i % rep.nshards != rep.shard:
            continue
        if rep.only and rep.only != wl:
            continue
        if not B.is_qf(b) or B.has_op(b, ('app',)) or any(
                t[0] == 'U' or (t[0] == 'Array' and 'U' in repr(t))
                for t in B.types_in(b)):
            continue
        b2, A = abstract_consts(b)
        for (n, t) in B.free_syms(b2):
            if n not in A:
                A[n] = R.rand_value(t, rng)
        ck.check(wl, b2, A)
        # the same with one symbol dropped from the model
        names = sorted(n for (n, _) in B.free_syms(b2))
        if names and i % 3 == 0:
            ck.check(wl + '_partial', b2, A, (rng.choice(names),))
        if i % 3000 == 0:
            common.fresh_env()
    # powers with negative exponents over Int and Real bases (exact
    # rationals are expected)
    if rep.shard == 0 and (not rep.only or rep.only == 'pow'):
        common.fresh_env()
        i0, r0 = B.Sym('i0', B.INT), B.Sym('r0', B.REAL)
        for e in (-1, -2, -3, 0, 2):
            for base, et, vals in ((i0, B.Int(e), (3, -2, 7, 1)),
                                   (r0, B.Real(e), (Fraction(3),
                                                    Fraction(-2, 3),
                                                    Fraction(7, 2)))):
                f_ = ('pow', None, (base, et))
                for v in vals:
                    ck.check('pow', ('le', None, (f_, B.Real(1))),
                             {base[1][0]: v})
                    ck.check('pow', f_, {base[1][0]: v})
    # derived bit-vector constructors (bvsmod, nand, signed comparisons,
    # n-ary forms, ...) evaluated by a model for every operand value
    if not rep.only or rep.only == 'derived':
        derived_bv_cases(ck, rep, rng)
    if not rep.only or rep.only == 'after_failure':
        after_failure_cases(ck, rep, rng, 40 if rep.tier == 'quick' else 3000)
    # --- random QF, UF-free formulas of every result type
    n_rand = 1500 if rep.tier == 'quick' else 100000
    cfgs = [G.Cfg(quant=False, uf=False, custom=False),
            G.Cfg(quant=False, uf=False, custom=False, strings=False,
                  max_depth=6),
            G.Cfg(quant=False, uf=False, custom=False, arrays=False),
            G.Cfg(quant=False, uf=False, custom=False, pow=True)]
    j = 0
    while j < n_rand and not rep.out_of_time():
        if rep.only and rep.only != 'random':
            break
        g = G.Gen(rng, cfgs[j % len(cfgs)])
        ty = rng.choice([B.BOOL, B.BOOL, B.INT, B.REAL, B.BV(3), B.BV(8),
                         B.STRING, G.A_II, G.A_22, G.A_IB])
        if not g.type_ok(ty):
            ty = B.BOOL
        b = g.term(ty)
        A = total_assignment(b, rng, corner=(j % 5 == 0))
        names = sorted(A)
        drop = ()
        r = rng.random()
        if names and r < 0.5:
            drop = tuple(rng.sample(names, rng.randint(1, min(3, len(names)))))
        ck.check('random', b, A, drop)
        j += 1
        if j % 300 == 0:
            common.fresh_env()
    if j < n_rand:
        rep.notes.append('random workload truncated at %d of %d' % (j, n_rand))
    for name, info in M.PENDING:
        fb = info[0]
        rep.violation('%s/contract/%s/%s' % (PROP, name,
                                             J.shape_key(fb, 1) if fb else '?'),
                      'contract %s: %s' % (name, info[2:]),
                      {'bp': B.to_json(fb) if fb else None, 'kind': name})
    del M.PENDING[:]
    rep.count('contract_evals', M.COUNTS.get('get_value_contract', 0))


def derived_bv_cases(ck, rep, rng):
    """The constructor table of C06, but observed through model
    evaluation: EagerModel.get_value of the built formula for every operand
    value (widths 1-3) against the constructor's reference function."""
    import itertools
    from pysmt.solvers.eager import EagerModel
    from . import c06
    env = common.fresh_env()
    mgr = env.formula_manager
    idx = 0
    for w in (1, 2, 3):
        for (name, sorts, build, py) in c06.bv_cases(mgr, w):
            idx += 1
            if idx % rep.nshards != rep.shard or len(sorts) > 2:
                continue
            if any(t[0] != 'BV' or t[1] > 3 for t in sorts):
                continue
            args = [mgr.Symbol('c02d%d_%d' % (i, t[1]),
                               B.to_pytype(t, env))
                    for i, t in enumerate(sorts)]
            try:
                f = build(*args)
            except Exception:
                continue
            for vals in itertools.product(*[range(2 ** t[1])
                                            for t in sorts]):
                try:
                    want = py(*vals)
                except c06.Skip:
                    continue
                m = EagerModel(dict((a, mgr.BV(v, t[1])) for a, v, t in
                                    zip(args, vals, sorts)), env)
                try:
                    got = m.get_value(f)
                    gv = got.constant_value()
                except Exception as e:
                    rep.violation('C02/derived/raises/%s' % name.split(
                        ' [')[0], '%s at %s raised %r' % (name, vals, e))
                    break
                rep.count('derived_values_compared')
                if (isinstance(want, bool) and gv is not want) or \
                        (not isinstance(want, bool) and gv != want):
                    rep.violation(
                        'C02/derived/value/%s' % name.split(' [')[0],
                        'model value of %s at %s is %s, the constructor '
                        'denotes %s' % (name, list(vals), gv, want))
                    break
            rep.case(key=('derived', name))


def after_failure_cases(ck, rep, rng, n):
    """An evaluation that raises half-way (0 ** -1 inside the formula),
    then evaluations of related formulas under *another* model in the same
    environment: they must still be exact."""
    from pysmt.environment import get_env
    cfg = G.Cfg(quant=False, uf=False, custom=False, arrays=False,
                strings=False, max_depth=3)
    z = B.Sym('c02_z', B.REAL)
    bad = ('lt', None, (('pow', None, (z, B.Real(-1))), B.Real(1)))
    for k in range(n):
        if rep.out_of_time():
            break
        if k % 10 == 0:
            common.fresh_env()
        env = get_env()
        g = G.Gen(rng, cfg)
        b = g.term(B.BOOL)
        A1 = total_assignment(b, rng)
        A2 = total_assignment(b, rng, corner=True)
        wrapped = ('and', None, (b, bad)) if k % 2 else \
            ('or', None, (bad, b))
        try:
            f = B.build(wrapped, env)
            syms = dict(B.free_syms(B.describe(f)))
            A1z = dict(A1)
            A1z['c02_z'] = Fraction(0)
            m1 = ck.make_model(dict((n_, A1z[n_]) for n_ in syms), syms, env)
        except Exception:
            rep.count('build_rejected_or_outside')
            continue
        try:
            m1.get_value(f)
            rep.count('evaluation_did_not_fail')
        except Exception:
            rep.count('failing_evaluations')
        # a second way to fail half-way: a model that gives one symbol a
        # value of the wrong sort
        try:
            from pysmt.solvers.eager import EagerModel
            fb_ = B.build(b, env)
            fv_ = sorted(fb_.get_free_variables(),
                         key=lambda s_: s_.symbol_name())
            if len(fv_) >= 2:
                asg = dict(m1.assignment) if hasattr(m1, 'assignment') \
                    else {}
                mg_ = env.formula_manager
                asg[fv_[-1]] = mg_.String('oops') if not \
                    fv_[-1].symbol_type().is_string_type() else mg_.Int(1)
                M.SUSPENDED[0] = True
                try:
                    EagerModel(asg, env).get_value(fb_)
                    rep.count('evaluation_did_not_fail')
                except Exception:
                    rep.count('failing_evaluations')
                finally:
                    M.SUSPENDED[0] = False
        except Exception:
            pass
        # the same and related formulas under another model
        subs = [s for s in B.subterms(b) if s[2]][:3]
        for b2 in [b] + subs:
            try:
                t2 = B.typeof(b2)
            except B.IllTyped:
                continue
            A = dict(A2)
            for (n_, t_) in B.free_syms(b2):
                A.setdefault(n_, R.rand_value(t_, rng))
            ck.check('after_failure', b2, A)


def replay(case, rep):
    common.fresh_env()
    ck = Checker(rep)
    c = case['case']
    b = B.from_json(c['bp'])
    from fractions import Fraction  # noqa (eval of reprs)
    A = {k: eval(v, {'Fraction': Fraction, 'Arr': None}) for k, v in
         c.get('A', {}).items() if not v.startswith('Arr')}
    for (n, t) in B.free_syms(b):
        if n not in A:
            A[n] = R.rand_value(t, ck.rng)
    kind, info = ck.judge_once(b, A, tuple(c.get('drop', ())))
    if kind and kind != 'build':
        rep.violation(case['key'], '%s: %s' % (kind, info), c)
    print('replay %s: %s %s' % (B.show(b), kind, info))
