"""C03 - every formula is well-typed; ill-typed applications are rejected."""
import itertools
import random
import warnings

from . import bp as B
from . import gen as G
from . import monitors as M
from . import common
from .bp import BOOL, INT, REAL, STRING, BV, ARR, U

PROP = 'C03'

A_II = ARR(INT, INT)
A_48 = ARR(BV(4), BV(8))
A_IB = ARR(INT, BOOL)
SORTS = [BOOL, INT, REAL, BV(1), BV(4), BV(8), STRING, A_II, A_48, A_IB,
         U('S')]

ANY = 'any'      # outcome not constrained by the property
BAD = None       # ill-typed: must raise


def _isbv(t):
    return t[0] == 'BV'


def _num(t):
    return t in (INT, REAL)


def sig_same_bv(ts):
    return ts[0] if len(ts) == 2 and _isbv(ts[0]) and ts[0] == ts[1] else BAD


def sig_bv_rel(ts):
    return BOOL if sig_same_bv(ts) else BAD


def sig_bv_un(ts):
    return ts[0] if _isbv(ts[0]) else BAD


def sig_arith2(ts):
    return ts[0] if _num(ts[0]) and ts[0] == ts[1] else BAD


def sig_rel2(ts):
    return BOOL if _num(ts[0]) and ts[0] == ts[1] else BAD


def sig_bool2(ts):
    return BOOL if ts == [BOOL, BOOL] else BAD


def sig_eq(ts):
    return BOOL if ts[0] == ts[1] and ts[0] != BOOL else BAD


def fixed(expect):
    def f(ts):
        want, ret = expect
        return ret if ts == list(want) else BAD
    return f


FIXED = {
    # name: (arity, signature function)
    'Not': (1, fixed(((BOOL,), BOOL))),
    'ToReal': (1, lambda ts: REAL if ts[0] in (INT, REAL) else BAD),
    'BVNot': (1, sig_bv_un), 'BVNeg': (1, sig_bv_un),
    'StrLength': (1, fixed(((STRING,), INT))),
    'StrToInt': (1, fixed(((STRING,), INT))),
    'IntToStr': (1, fixed(((INT,), STRING))),
    'BVToNatural': (1, lambda ts: INT if _isbv(ts[0]) else BAD),
    'Implies': (2, sig_bool2), 'Iff': (2, sig_bool2), 'Xor': (2, sig_bool2),
    'Minus': (2, sig_arith2), 'Div': (2, sig_arith2),
    'Equals': (2, sig_eq), 'NotEquals': (2, sig_eq),
    'EqualsOrIff': (2, lambda ts: BOOL if ts[0] == ts[1] else BAD),
    'GE': (2, sig_rel2), 'GT': (2, sig_rel2), 'LE': (2, sig_rel2),
    'LT': (2, sig_rel2),
    'BVXor': (2, sig_same_bv), 'BVSub': (2, sig_same_bv),
    'BVUDiv': (2, sig_same_bv), 'BVURem': (2, sig_same_bv),
    'BVLShl': (2, sig_same_bv), 'BVLShr': (2, sig_same_bv),
    'BVSDiv': (2, sig_same_bv), 'BVSRem': (2, sig_same_bv),
    'BVAShr': (2, sig_same_bv), 'BVNand': (2, sig_same_bv),
    'BVNor': (2, sig_same_bv), 'BVXnor': (2, sig_same_bv),
    'BVSMod': (2, sig_same_bv),
    'BVULT': (2, sig_bv_rel), 'BVUGT': (2, sig_bv_rel),
    'BVULE': (2, sig_bv_rel), 'BVUGE': (2, sig_bv_rel),
    'BVSLT': (2, sig_bv_rel), 'BVSLE': (2, sig_bv_rel),
    'BVSGT': (2, sig_bv_rel), 'BVSGE': (2, sig_bv_rel),
    'BVComp': (2, lambda ts: BV(1) if sig_same_bv(ts) else BAD),
    'StrContains': (2, fixed(((STRING, STRING), BOOL))),
    'StrPrefixOf': (2, fixed(((STRING, STRING), BOOL))),
    'StrSuffixOf': (2, fixed(((STRING, STRING), BOOL))),
    'StrCharAt': (2, fixed(((STRING, INT), STRING))),
    'Select': (2, lambda ts: ts[0][2] if ts[0][0] == 'Array'
               and ts[0][1] == ts[1] else BAD),
    'Ite': (3, lambda ts: ts[1] if ts[0] == BOOL and ts[1] == ts[2]
            else BAD),
    'StrIndexOf': (3, fixed(((STRING, STRING, INT), INT))),
    'StrReplace': (3, fixed(((STRING, STRING, STRING), STRING))),
    'StrSubstr': (3, fixed(((STRING, INT, INT), STRING))),
    'Store': (3, lambda ts: ts[0] if ts[0][0] == 'Array'
              and ts[0][1] == ts[1] and ts[0][2] == ts[2] else BAD),
}


def nary(elem_ok, ret, min_n):
    def f(ts):
        if len(ts) < min_n:
            return BAD
        if len(ts) == 1:
            # documented normalisation: a unary n-ary application returns its
            # argument; the property does not constrain it
            return ANY
        if all(elem_ok(t) for t in ts) and all(t == ts[0] for t in ts):
            return ret(ts)
        return BAD
    return f


NARY = {
    'And': nary(lambda t: t == BOOL, lambda ts: BOOL, 0),
    'Or': nary(lambda t: t == BOOL, lambda ts: BOOL, 0),
    'Plus': nary(_num, lambda ts: ts[0], 1),
    'Times': nary(_num, lambda ts: ts[0], 1),
    'AtMostOne': nary(lambda t: t == BOOL, lambda ts: BOOL, 0),
    'ExactlyOne': nary(lambda t: t == BOOL, lambda ts: BOOL, 0),
    'AllDifferent': nary(lambda t: True, lambda ts: BOOL, 0),
    'Min': nary(_num, lambda ts: ts[0], 1),
    'Max': nary(_num, lambda ts: ts[0], 1),
    'BVAnd': nary(_isbv, lambda ts: ts[0], 1),
    'BVOr': nary(_isbv, lambda ts: ts[0], 1),
    'BVAdd': nary(_isbv, lambda ts: ts[0], 1),
    'BVMul': nary(_isbv, lambda ts: ts[0], 1),
    'StrConcat': nary(lambda t: t == STRING, lambda ts: STRING, 2),
}


def sig_concat(ts):
    if len(ts) < 2:
        return BAD
    if all(_isbv(t) for t in ts):
        return BV(sum(t[1] for t in ts))
    return BAD


NARY['BVConcat'] = sig_concat


def argterm(mgr, env, t, j=0):
    return mgr.Symbol('%s%d' % (G.sym_name(t), j), B.to_pytype(t, env))


class Matrix(object):
    def __init__(self, rep):
        self.rep = rep
        self.calls = 0

    def call(self, name, fn, args, kwargs, expect, sig):
        """Apply fn twice (retry after a rejection must be rejected too)."""
        rep = self.rep
        from pysmt.fnode import FNode
        outcomes = []
        for attempt in (0, 1):
            try:
                with warnings.catch_warnings():
                    warnings.simplefilter('ignore')
                    r = fn(*args, **kwargs)
                outcomes.append(('ok', r))
            except Exception as e:
                outcomes.append(('exc', e))
        self.calls += 1
        rep.case(key='%s%s' % (name, sig),
                 sample='%s%s -> %s' % (name, sig, outcomes[0][0])
                 if self.calls % 2503 == 0 else None)
        rep.count('ctor_' + name)
        if expect == ANY:
            rep.count('unconstrained_outcome')
            for kind, r in outcomes:
                if kind == 'ok' and isinstance(r, FNode):
                    self.well_typed(name, sig, r, None)
            return
        for attempt, (kind, r) in enumerate(outcomes):
            if expect is BAD:
                if kind == 'ok':
                    rep.violation(
                        'C03/accepted-ill-typed/%s%s' % (
                            name, '' if attempt == 0 else '/on-retry'),
                        '%s%s returned %s instead of raising%s' % (
                            name, sig, r,
                            '' if attempt == 0 else ' (second attempt)'),
                        {'ctor': name, 'sig': repr(sig)})
                    return
                rep.count('rejections_observed')
            else:
                if kind == 'exc':
                    rep.violation(
                        'C03/rejected-well-typed/%s' % name,
                        '%s%s raised %r' % (name, sig, r),
                        {'ctor': name, 'sig': repr(sig)})
                    return
                if not self.well_typed(name, sig, r, expect):
                    return
                rep.count('acceptances_observed')

    def well_typed(self, name, sig, r, expect):
        rep = self.rep
        try:
            t_ind = B.typeof(B.describe(r))
        except B.IllTyped as e:
            rep.violation('C03/ill-typed-result/%s' % name,
                          '%s%s returned ill-typed %s: %s' % (name, sig, r, e),
                          {'ctor': name, 'sig': repr(sig)})
            return False
        t_rep = B.from_pytype(r.get_type())
        if t_ind != t_rep or (expect is not None and t_ind != expect):
            rep.violation('C03/wrong-type/%s' % name,
                          '%s%s: get_type=%r independent=%r expected=%r' % (
                              name, sig, t_rep, t_ind, expect),
                          {'ctor': name, 'sig': repr(sig)})
            return False
        return True


def tuples(n, rng, limit):
    allt = list(itertools.product(SORTS, repeat=n))
    if limit is None or len(allt) <= limit:
        return allt
    # keep every tuple with <= 2 distinct sorts, sample the rest
    keep = [t for t in allt if len(set(t)) <= 2]
    rest = [t for t in allt if len(set(t)) > 2]
    rng.shuffle(rest)
    return keep + rest[:max(0, limit - len(keep))]


def run_matrix(rep):
    env = common.fresh_env()
    mgr = env.formula_manager
    rng = random.Random(rep.seed * 31337 + 5)
    mx = Matrix(rep)
    quick = rep.tier == 'quick'
    idx = [0]

    def mine():
        idx[0] += 1
        if idx[0] % 64 == 0 and rep.out_of_time():
            truncated[0] = True
        if truncated[0]:
            return False
        return idx[0] % rep.nshards == rep.shard
    truncated = [False]

    def terms_for(ts, same_sym):
        seen = {}
        out = []
        for t in ts:
            j = 0 if same_sym else seen.get(t, 0)
            seen[t] = j + 1
            out.append(argterm(mgr, env, t, j))
        return out

    for name, (n, sigf) in sorted(FIXED.items()):
        for ts in tuples(n, rng, 400 if quick and n == 3 else None):
            for same in ((False, True) if len(set(ts)) < len(ts)
                         else (False,)):
                if not mine():
                    continue
                args = terms_for(ts, same)
                mx.call(name, getattr(mgr, name), args, {}, sigf(list(ts)),
                        tuple(ts))
    for name, sigf in sorted(NARY.items()):
        for n in (0, 1, 2, 3, 4):
            lim = None
            if n == 3:
                lim = 300 if quick else None
            if n == 4:
                lim = 250 if quick else 6000
            for ts in tuples(n, rng, lim):
                if not mine():
                    continue
                args = terms_for(ts, False)
                for style in (0, 1):
                    # And(a, b) and And([a, b])
                    a = args if style == 0 else [list(args)]
                    mx.call(name, getattr(mgr, name), a, {},
                            sigf(list(ts)), tuple(ts))
    # Pow: exponent must be a constant
    consts = {BOOL: mgr.TRUE(), INT: mgr.Int(2), REAL: mgr.Real(2),
              BV(4): mgr.BV(2, 4), STRING: mgr.String('2')}
    for t1 in SORTS:
        for t2, c in consts.items():
            if not mine():
                continue
            ok = REAL if (t1 == t2 and _num(t1)) else BAD
            mx.call('Pow', mgr.Pow, [argterm(mgr, env, t1), c], {}, ok,
                    (t1, t2))
    # constants as operands (constructors that fold constants must refuse
    # the ill-sorted applications all the same)
    for t1, c1 in consts.items():
        for t2, c2 in consts.items():
            if not mine():
                continue
            ok = REAL if (t1 == t2 and _num(t1)) else BAD
            mx.call('Pow', mgr.Pow, [c1, c2], {}, ok, ('const', t1, t2))
    for name, (n, sigf) in sorted(FIXED.items()):
        if n > 2:
            continue
        for ts in tuples(n, rng, None):
            if not all(t in consts for t in ts):
                continue
            for mask in range(1, 2 ** n):
                if not mine():
                    continue
                args = [consts[t] if (mask >> i) & 1 else
                        argterm(mgr, env, t, i) for i, t in enumerate(ts)]
                mx.call(name, getattr(mgr, name), args, {}, sigf(list(ts)),
                        ('const%d' % mask,) + tuple(ts))
    # indexed BV constructors
    for t in SORTS:
        x = argterm(mgr, env, t)
        w = t[1] if _isbv(t) else None
        for s in (0, 1, 3, 4, 7, 8, 9):
            for e in (0, 1, 3, 4, 7, 8, 9):
                if not mine():
                    continue
                ok = BV(e - s + 1) if w and 0 <= s <= e < w else BAD
                mx.call('BVExtract', mgr.BVExtract, [x, s, e], {}, ok,
                        (t, s, e))
        for k in (0, 1, 3, 4, 5, 8, 9, 40):
            if not mine():
                continue
            okr = t if w and k <= w else (ANY if w else BAD)
            mx.call('BVRol', mgr.BVRol, [x, k], {}, okr, (t, k))
            mx.call('BVRor', mgr.BVRor, [x, k], {}, okr, (t, k))
            oke = BV(w + k) if w else BAD
            mx.call('BVZExt', mgr.BVZExt, [x, k], {}, oke, (t, k))
            mx.call('BVSExt', mgr.BVSExt, [x, k], {}, oke, (t, k))
            if 1 <= k <= 9:
                okp = BV(w * k) if w else (ANY if k == 1 else BAD)
                mx.call('BVRepeat', mgr.BVRepeat, [x, k], {}, okp, (t, k))
        for k in (-1, -3):
            if not mine():
                continue
            mx.call('BVZExt', mgr.BVZExt, [x, k], {}, BAD, (t, k))
            mx.call('BVSExt', mgr.BVSExt, [x, k], {}, BAD, (t, k))
        for sign in (False, True):
            for t2 in SORTS:
                if not mine():
                    continue
                y = argterm(mgr, env, t2, 1)
                ok = t if w and t == t2 else BAD
                mx.call('MinBV', mgr.MinBV, [sign, x, y], {}, ok,
                        (sign, t, t2))
                mx.call('MaxBV', mgr.MaxBV, [sign, x, y], {}, ok,
                        (sign, t, t2))
    # quantifiers, functions, array values
    import pysmt.typing as T
    for t in SORTS:
        for tv in SORTS:
            if not mine():
                continue
            body = argterm(mgr, env, t)
            v = argterm(mgr, env, tv, 1)
            ok = BOOL if t == BOOL else BAD
            mx.call('ForAll', mgr.ForAll, [[v], body], {}, ok, (tv, t))
            mx.call('Exists', mgr.Exists, [[v, argterm(mgr, env, tv, 2)],
                                           body], {}, ok, (tv, tv, t))
    # binders must be symbols (the documented domain of the quantifiers)
    pb = argterm(mgr, env, BOOL)
    xi = argterm(mgr, env, INT)
    for nonsym in (mgr.Int(1), mgr.Plus(xi, mgr.Int(1)), mgr.TRUE(),
                   mgr.Not(pb), mgr.GT(xi, mgr.Int(0)), mgr.BV(1, 4)):
        if not mine():
            continue
        for q in ('ForAll', 'Exists'):
            mx.call(q, getattr(mgr, q), [[nonsym], pb], {}, BAD,
                    ('binder-is-not-a-symbol',))
            mx.call(q, getattr(mgr, q), [[xi, nonsym], pb], {}, BAD,
                    ('binder-is-not-a-symbol', 2))
    # bit-vector sorts have a positive width
    for w in (0, -1, -3):
        if not mine():
            continue
        for what, fn in (
                ('BVType', lambda w=w: mgr.Symbol('c03_w%d' % w,
                                                  T.BVType(w))),
                ('BV', lambda w=w: mgr.BV(0, w)),
                ('tm.BVType', lambda w=w: mgr.Symbol(
                    'c03_tw%d' % w, env.type_manager.BVType(w)))):
            rep.count('matrix_cases')
            try:
                r = fn()
                rep.violation('C03/accepted-ill-typed/bit-vector-width',
                              '%s with width %d returned %s : %s' % (
                                  what, w, r, r.get_type()),
                              {'what': what, 'width': w})
            except Exception:
                rep.count('matrix_rejections')
    fsigs = [(INT, (INT,)), (BOOL, (BOOL, BV(4))), (BV(8), (A_II, REAL)),
             (U('S'), (U('S'), INT, STRING))]
    for ret, ps in fsigs:
        f = mgr.Symbol('f_%x' % (abs(hash(repr((ret, ps)))) & 0xffff),
                       B.to_pytype(B.FUN(ret, ps), env))
        for n in range(1, 5):
            for ts in tuples(n, rng, 200 if quick else 2000):
                if not mine():
                    continue
                ok = ret if tuple(ts) == ps else BAD
                mx.call('Function', mgr.Function,
                        [f, terms_for(ts, False)], {}, ok,
                        ('f' + repr(ps), tuple(ts)))
    kconst = {INT: [mgr.Int(0), mgr.Int(1)], BV(4): [mgr.BV(0, 4)],
              BOOL: [mgr.TRUE()], REAL: [mgr.Real(1)],
              STRING: [mgr.String('k')]}
    for it in (INT, BV(4), BOOL, REAL):
        for dt in SORTS:
            d = argterm(mgr, env, dt)
            for kt in kconst:
                for vt in SORTS:
                    if not mine():
                        continue
                    ok = ARR(it, dt) if (kt == it and vt == dt) else BAD
                    # an assignment equal to the default is dropped before
                    # typing: use a different symbol
                    mx.call('Array', mgr.Array,
                            [B.to_pytype(it, env), d,
                             {kconst[kt][0]: argterm(mgr, env, vt, 1)}], {},
                            ok, (it, dt, kt, vt))
    rep.count('matrix_calls', mx.calls)
    if truncated[0]:
        rep.notes.append('operator matrix truncated by the time budget')


def run_mixed(rep):
    """Mixed workload through every transformation; the create_node monitor
    types every node born anywhere."""
    from pysmt.rewritings import (nnf, cnf, aig, prenex_normal_form,
                                  TimesDistributor, Ackermannizer)
    from pysmt.smtlib.parser import SmtLibParser
    from pysmt.parsing import HRParser
    from pysmt.environment import Environment
    from io import StringIO
    nm = M.NODE_MONITOR
    rng = random.Random(rep.seed * 613 + rep.shard)
    n = 150 if rep.tier == 'quick' else 20000
    before = nm.nodes_typed
    origin = {}
    for j in range(n):
        if rep.out_of_time():
            rep.notes.append('mixed workload truncated at %d' % j)
            break
        if j % 100 == 0:
            env = common.fresh_env()
        cfg = [G.Cfg(), G.Cfg(quant=False), G.Cfg(strings=False),
               G.Cfg(uf=False, arrays=False)][j % 4]
        g = G.Gen(rng, cfg)
        b = g.term(B.BOOL)
        try:
            f = B.build(b, env)
        except Exception:
            rep.count('mixed_build_rejected')
            continue

        def stage(name, fn):
            t0 = nm.nodes_typed
            try:
                with warnings.catch_warnings():
                    warnings.simplefilter('ignore')
                    r = fn()
            except Exception as e:
                rep.count('mixed_exc_' + name)
                r = None
            origin[name] = origin.get(name, 0) + nm.nodes_typed - t0
            return r
        stage('simplify', f.simplify)
        fv = sorted(f.get_free_variables(), key=lambda s: s.symbol_name())
        terms = [s for s in fv if not s.symbol_type().is_function_type()]
        if terms:
            s0 = terms[0]
            stage('substitute', lambda: f.substitute({s0: s0}))
            if len(terms) > 1 and terms[1].symbol_type() == s0.symbol_type():
                stage('substitute', lambda: f.substitute({s0: terms[1]}))
        stage('nnf', lambda: nnf(f, env))
        stage('prenex', lambda: prenex_normal_form(f, env))
        stage('aig', lambda: aig(f, env))
        if B.is_qf(b):
            stage('cnf', lambda: cnf(f, env))
            stage('ackermann',
                  lambda: Ackermannizer(env).do_ackermannization(f))
        # (distributing products over sums is exponential in their nesting
        # by definition: formulas with many of both are left out - one of
        # them took 28 GB in a thorough run)
        subs_ = list(B.subterms(b))
        nt_ = sum(1 for x in subs_ if x[0] == 'times')
        np_ = sum(1 for x in subs_ if x[0] in ('plus', 'minus'))
        if nt_ * np_ <= 12:
            stage('times_distributor', lambda: TimesDistributor(env).walk(f))
        else:
            rep.count('times_distributor_skipped_large')
        txt = stage('to_smtlib', lambda: f.to_smtlib(daggify=(j % 2 == 0)))
        if txt is not None:
            def parse():
                from pysmt.smtlib.script import smtlibscript_from_formula
                buf = StringIO()
                smtlibscript_from_formula(f).serialize(buf)
                return SmtLibParser(env).get_script(StringIO(buf.getvalue()))
            stage('smtlib_parse', parse)
        hr = stage('serialize', f.serialize)
        if hr is not None and B.is_qf(b) and j % 3 == 0:
            stage('hr_parse', lambda: HRParser(env).parse(hr))
        env2 = Environment()
        stage('normalize', lambda: env2.formula_manager.normalize(f))
    for k, v in origin.items():
        rep.count('nodes_typed_in_' + k, v)
    rep.count('mixed_formulas', n)
    rep.count('nodes_typed_total', nm.nodes_typed - before)


def run_parser_matrix(rep):
    """Operator applications written as SMT-LIB text: ill-sorted ones must
    raise, the others must come back well-typed.  pySMT documents one
    leniency: a *ground* integer term may stand for a real.  An Int term
    with a free variable next to a Real operand is ill-sorted."""
    from io import StringIO
    from pysmt.smtlib.parser import SmtLibParser
    from . import smtread as S
    decl = ('(declare-fun x () Int)(declare-fun y () Int)'
            '(declare-fun r () Real)(declare-fun s () Real)'
            '(declare-fun p () Bool)(declare-fun b () (_ BitVec 4))'
            '(declare-fun c () (_ BitVec 3))(declare-fun t () String)'
            '(declare-fun a () (Array Int Int))'
            '(declare-fun f (Int Real) Bool)')
    operands = {
        'IV': 'x', 'IC': '(+ x y)', 'IC2': '(* 2 x)', 'II': '(ite p x y)',
        'IK': '2', 'IG': '(+ 1 2)',
        'RV': 'r', 'RC': '(+ r s)', 'RK': '2.5', 'RI': '(ite p r s)',
        'B': 'p', 'BV4': 'b', 'BV3': 'c', 'S': 't', 'A': 'a',
        'SEL': '(select a x)', 'LEN': '(str.len t)', 'NAT': '(bv2nat b)',
        'BVK': '#b101', 'BK': 'true', 'SK': '"s"',
    }
    int_open = ('IV', 'IC', 'IC2', 'II', 'SEL', 'LEN', 'NAT')
    int_ground = ('IK', 'IG')
    real = ('RV', 'RC', 'RK', 'RI')
    ops2 = ['+', '-', '*', '<', '<=', '>', '>=', '=', 'distinct', '/', 'div']
    forms = []
    for op in ops2:
        for k1 in operands:
            for k2 in operands:
                body = '(%s %s %s)' % (op, operands[k1], operands[k2])
                if op in ('+', '-', '*', '/', 'div'):
                    body = '(= %s %s)' % (body, body)
                forms.append((op, (k1, k2), '(assert %s)' % body))
    for k1 in operands:
        for k2 in operands:
            forms.append(('ite', (k1, k2), '(assert (= (ite p %s %s) '
                          '(ite p %s %s)))' % (operands[k1], operands[k2],
                                               operands[k1], operands[k2])))
            forms.append(('f', (k1, k2), '(assert (f %s %s))' % (
                operands[k1], operands[k2])))
            forms.append(('store', (k1, k2), '(assert (= a (store a %s %s)))'
                          % (operands[k1], operands[k2])))
    # definitions: the body must have the declared result sort (a ground
    # Int body may stand for a Real one)
    rets = {'Int': 'IV', 'Real': 'RV', 'Bool': 'B', '(_ BitVec 4)': 'BV4',
            '(_ BitVec 3)': 'BV3', 'String': 'S', '(Array Int Int)': 'A'}
    for ret in rets:
        for k1 in operands:
            forms.append(('define-fun', (rets[ret], k1),
                          '(define-fun c03_d ((c03_v Int)) %s %s)'
                          '(assert true)' % (ret, operands[k1])))
            forms.append(('define-fun-param', (rets[ret], k1),
                          '(define-fun c03_d ((c03_v Int)) %s (ite p '
                          '%s %s))(assert true)' % (
                              ret, operands[k1],
                              'c03_v' if ret == 'Int' else operands[k1])))
    # applications of definitions: the term has the declared result sort,
    # whatever the argument was coerced from
    for body in ('c03_v', '(ite p c03_v r)', '(+ c03_v 0.5)',
                 '(ite (= c03_v r) r c03_v)'):
        dfn = '(define-fun c03_id ((c03_v Real)) Real %s)' % body
        for k1 in operands:
            forms.append(('apply-def', (k1, 'RV'),
                          dfn + '(assert (= (c03_id %s) (c03_id %s)))' % (
                              operands[k1], operands[k1])))
            for k2 in ('IV', 'IC', 'RV', 'IK'):
                forms.append(('apply-def-cmp', (k2, k1),
                              dfn + '(assert (< %s (c03_id %s)))' % (
                                  operands[k2], operands[k1])))
    for i, (op, kinds, text) in enumerate(forms):
        if i % rep.nshards != rep.shard:
            continue
        full = decl + text
        try:
            S.Reader().run(full)
            strict_ok = True
        except S.SmtError as e:
            strict_ok = False
            if e.kind not in ('ill-sorted',):
                rep.count('parser_matrix_outside')
                continue
        # documented leniency: ground Int terms next to Real operands
        lenient = (not strict_ok and all(k in int_ground or k in real
                                         for k in kinds)
                   and op not in ('store',))
        if op == '/' and not strict_ok and all(
                k in int_open or k in int_ground for k in kinds):
            # legacy: pySMT used to print integer division as '/', and the
            # parser still reads '/' over two Int terms that way
            lenient = True
        if op == 'f' and not strict_ok and kinds[0] not in int_open + \
                int_ground:
            lenient = False
        if op == 'f' and not strict_ok and kinds[0] in int_open + \
                int_ground and kinds[1] in int_ground:
            lenient = True
        env = common.fresh_env()
        rep.case(key='parse:' + text)
        rep.count('parser_matrix_cases')
        try:
            with warnings.catch_warnings():
                warnings.simplefilter('ignore')
                script = SmtLibParser(env).get_script(StringIO(full))
            f = [c for c in script.commands if c.name == 'assert'][0].args[0]
            accepted = True
        except Exception:
            accepted = False
        if strict_ok and not accepted:
            rep.violation('C03/parser/rejects-well-sorted/%s(%s)' % (
                op, ','.join(kinds)), 'the parser rejects %s' % text,
                {'text': full})
        elif not strict_ok and accepted and not lenient:
            rep.violation('C03/parser/accepted-ill-sorted/%s(%s)' % (
                op, ','.join(sorted(set(
                    'Int-open' if k in int_open else 'Int-ground'
                    if k in int_ground else 'Real' if k in real else k
                    for k in kinds)))),
                'the parser accepts the ill-sorted %s and returns %s' % (
                    text, f), {'text': full})
        elif accepted:
            try:
                B.typeof(B.describe(f))
                rep.count('parser_matrix_well_typed')
                if op == 'apply-def' and B.typeof(
                        B.describe(f.arg(0))) != B.REAL:
                    rep.violation(
                        'C03/parser/definition-result-sort',
                        'the application in %s has sort %s, the definition '
                        'declares Real' % (text, f.arg(0).get_type()),
                        {'text': full})
            except B.IllTyped as e:
                rep.violation('C03/parser/ill-typed-result/%s' % op,
                              '%s parsed into an ill-typed formula: %s' % (
                                  text, e), {'text': full})
        else:
            rep.count('parser_matrix_rejections')


def run_two_envs(rep):
    """Formulas of an environment that is not the current one: their type
    (FNode.get_type, shortcuts.get_type, bv_width of constructions) must not
    depend on what the *current* environment has typed."""
    from pysmt.environment import Environment
    import pysmt.shortcuts as SC
    rng = random.Random(rep.seed * 131 + rep.shard)
    cfg = G.Cfg(max_depth=3, share=0.3)
    for k in range(40 if rep.tier == 'quick' else 2000):
        if rep.out_of_time():
            break
        top = common.fresh_env()
        other = Environment()
        g1, g2 = G.Gen(rng, cfg), G.Gen(rng, cfg)
        pairs = []
        for _ in range(6):
            t1 = rng.choice([B.BOOL, B.INT, B.REAL, B.BV(3), B.BV(8)])
            t2 = rng.choice([B.BOOL, B.INT, B.REAL, B.BV(3), B.BV(8)])
            b1, b2 = g1.term(t1), g2.term(t2)
            try:
                f1 = B.build(b1, top)
                f2 = B.build(b2, other)
            except Exception:
                continue
            pairs.append((b1, f1, b2, f2))
        for (b1, f1, b2, f2) in pairs:
            for (b, f) in ((b1, f1), (b2, f2), (b1, f1)):
                try:
                    want = B.typeof(B.describe(f))
                except (B.IllTyped, B.Undescribable):
                    continue
                rep.count('two_env_type_queries')
                for how, fn in (('FNode.get_type', lambda: f.get_type()),
                                ('shortcuts.get_type',
                                 lambda: SC.get_type(f))):
                    try:
                        got = B.from_pytype(fn())
                    except Exception as e:
                        rep.violation(
                            'C03/two-envs/%s-raises' % how,
                            '%s of %s (built in %s environment) raised %r'
                            % (how, B.show(b, 100), 'the current' if f is f1
                               else 'another', e), {'bp': B.to_json(b)})
                        continue
                    if got != want:
                        rep.violation(
                            'C03/two-envs/%s' % how,
                            '%s of %s (built in %s environment) is %r, its '
                            'type is %r' % (how, B.show(b, 100),
                                            'the current' if f is f1 else
                                            'another', got, want),
                            {'bp': B.to_json(b)})
        rep.case(key=('two-envs', k, rep.shard))


def run_python_literals(rep):
    """Python values that are not numerals must be refused where a numeral
    is expected (bool is a subclass of int)."""
    import pysmt.typing as T
    env = common.fresh_env()
    mgr = env.formula_manager
    xi = mgr.Symbol('c03_li', T.INT)
    xr = mgr.Symbol('c03_lr', T.REAL)
    v8 = mgr.Symbol('c03_lv', T.BVType(8))
    fI = mgr.Symbol('c03_lf', T.FunctionType(T.INT, [T.INT, T.INT]))
    cases = [
        ('Int(True)', lambda: mgr.Int(True)),
        ('Int(False)', lambda: mgr.Int(False)),
        ('Real(True)', lambda: mgr.Real(True)),
        ('BV(True, 8)', lambda: mgr.BV(True, 8)),
        ('SBV(False, 4)', lambda: mgr.SBV(False, 4)),
        ('x + True', lambda: xi + True),
        ('x < False', lambda: xi < False),
        ('True - r', lambda: True - xr),
        ('f(True, 2)', lambda: fI(True, 2)),
        ('BVZExt(v, True)', lambda: mgr.BVZExt(v8, True)),
        ('BVExtract(v, False, True)', lambda: mgr.BVExtract(v8, False, True)),
        ('BVRol(v, True)', lambda: mgr.BVRol(v8, True)),
        ('v[True]', lambda: v8[True]),
        ('Int(2.0)', lambda: mgr.Int(2.0)),
        ('Int("3")', lambda: mgr.Int('3')),
        ('BV(2.0, 8)', lambda: mgr.BV(2.0, 8)),
    ]
    for name, fn in cases:
        rep.count('python_literal_cases')
        rep.case(key='pylit:' + name)
        for attempt in (0, 1):
            try:
                r = fn()
            except Exception:
                rep.count('rejections_observed')
                continue
            rep.violation('C03/accepted-python-value/%s' % name,
                          '%s returned %s instead of raising%s' % (
                              name, r, ' (second attempt)' if attempt else
                              ''), {'case': name})
            break


def run_function_signatures(rep):
    """One name, several function sorts (permuted, same multiset of
    parameter sorts, other arity, other result): equality of the sorts,
    re-declaration, and application must follow the structure of the sort."""
    import itertools
    from io import StringIO
    from pysmt.smtlib.parser import SmtLibParser
    base = [B.INT, B.REAL, B.BOOL, B.BV(4), B.BV(8), G.US]
    sigs = []
    for ps in ([B.INT, B.REAL], [B.REAL, B.INT], [B.INT, B.INT, B.REAL],
               [B.INT, B.REAL, B.INT], [B.REAL, B.INT, B.INT],
               [B.BV(4), B.BV(8)], [B.BV(8), B.BV(4)], [B.INT],
               [B.BOOL, B.INT], [B.INT, B.BOOL], [G.US, B.INT],
               [B.INT, G.US], [B.INT, B.REAL, B.BOOL],
               [B.BOOL, B.REAL, B.INT]):
        for ret in (B.BOOL, B.INT, B.REAL):
            sigs.append(B.FUN(ret, tuple(ps)))
    pairs = list(itertools.product(range(len(sigs)), repeat=2))
    smt = {'Bool': 'Bool', 'Int': 'Int', 'Real': 'Real'}

    def smt_sort(t):
        if t[0] == 'BV':
            return '(_ BitVec %d)' % t[1]
        if t[0] == 'U':
            return t[1]
        return smt[t[0]]
    for k, (i, j) in enumerate(pairs):
        if k % rep.nshards != rep.shard or rep.out_of_time():
            continue
        t1, t2 = sigs[i], sigs[j]
        env = common.fresh_env()
        mgr = env.formula_manager
        p1, p2 = B.to_pytype(t1, env), B.to_pytype(t2, env)
        rep.count('function_sort_pairs')
        rep.case(key=('funsig', i, j))
        same = (t1 == t2)
        if (p1 == p2) != same or (same and hash(p1) != hash(p2)):
            rep.violation('C03/function-sort-equality',
                          '%s == %s is %r' % (p1, p2, p1 == p2),
                          {'t1': repr(t1), 't2': repr(t2)})
        f1 = mgr.Symbol('fsig', p1)
        try:
            f2 = mgr.Symbol('fsig', p2)
            if not same:
                rep.violation(
                    'C03/function-redeclared-at-another-sort',
                    'Symbol("fsig", %s) after Symbol("fsig", %s) returned a '
                    'symbol of sort %s' % (p2, p1, f2.symbol_type()),
                    {'t1': repr(t1), 't2': repr(t2)})
            elif f2 is not f1:
                rep.violation('C03/function-symbol-not-shared', 'two objects',
                              {'t1': repr(t1)})
        except Exception as e:
            if same:
                rep.violation('C03/function-redeclaration-refused',
                              'same sort %s refused: %r' % (p1, e),
                              {'t1': repr(t1)})
        if B.from_pytype(f1.symbol_type()) != t1:
            rep.violation('C03/function-symbol-sort',
                          'symbol declared at %r reports %s' % (
                              t1, f1.symbol_type()), {'t1': repr(t1)})
        # application with arguments in the order of t2
        args = [argterm(mgr, env, t, n) for n, t in enumerate(t2[2])]
        ok = (tuple(t2[2]) == tuple(t1[2]))
        try:
            app = mgr.Function(f1, args)
            if not ok:
                rep.violation(
                    'C03/ill-sorted-application-accepted',
                    '%s : %s applied to arguments of sorts %s gives %s' % (
                        f1, p1, [str(a.get_type()) for a in args], app),
                    {'t1': repr(t1), 't2': repr(t2)})
            elif B.from_pytype(app.get_type()) != t1[1]:
                rep.violation('C03/application-sort', '%s : %s' % (
                    app, app.get_type()), {'t1': repr(t1)})
        except Exception as e:
            if ok:
                rep.violation(
                    'C03/well-sorted-application-refused',
                    '%s : %s applied to %s raised %r' % (
                        f1, p1, [str(a.get_type()) for a in args], e),
                    {'t1': repr(t1), 't2': repr(t2)})
        # the same through the parser, in a fresh environment
        env = common.fresh_env()
        decl = lambda t: '(declare-fun fsig (%s) %s)' % (
            ' '.join(smt_sort(x) for x in t[2]), smt_sort(t[1]))
        text = '(declare-sort %s 0)' % G.US[1] + decl(t1) + decl(t2)
        try:
            SmtLibParser(env).get_script(StringIO(text))
            accepted = True
        except Exception:
            accepted = False
        rep.count('function_sort_parser_pairs')
        if accepted and not same:
            rep.violation('C03/parser/function-redeclared-at-another-sort',
                          'accepted: %s' % text, {'text': text})


def run(rep):
    M.NODE_MONITOR.install()
    if rep.shard == 0 and (not rep.only or rep.only == 'testsuite'):
        # the repository's own tests as one more workload for the
        # create_node monitor (runs beside the other shards)
        common.run_repo_tests_monitored(rep, ('C03', 'monitor'))
    rep.share(0.1)
    if not rep.only or rep.only == 'funsig':
        run_function_signatures(rep)
    rep.share(0.55)
    if not rep.only or rep.only == 'matrix':
        run_matrix(rep)
    rep.share(0.9)
    if not rep.only or rep.only == 'mixed':
        run_mixed(rep)
    rep.share(0.95)
    if not rep.only or rep.only == 'parser':
        run_parser_matrix(rep)
    rep.share(1.0)
    if not rep.only or rep.only == 'two_envs':
        run_two_envs(rep)
    if rep.shard == 0 and (not rep.only or rep.only == 'pylit'):
        run_python_literals(rep)
    nm = M.NODE_MONITOR
    rep.count('nodes_typed_by_create_node_monitor', nm.nodes_typed)
    seen = set()
    for (k, what, case) in nm.problems:
        if not k.startswith('C03') and not k.startswith('monitor'):
            continue
        key = 'C03/create_node/%s/%s' % (k, (case or ['?'])[0]
                                         if isinstance(case, list) else k)
        if key in seen:
            continue
        seen.add(key)
        rep.violation(key, what, {'bp': case, 'kind': k})


def replay(case, rep):
    rep.only = None
    run(rep)
