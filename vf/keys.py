"""M7 - canonical keys: structural (skey) and modulo AC / bound-variable
order / fresh-symbol names (ackey)."""
import re

from . import bp as B
from .c04 import canon

COMMUTATIVE = ('and', 'or', 'plus', 'times', 'iff', 'eq', 'bvand', 'bvor',
               'bvxor', 'bvadd', 'bvmul', 'bvcomp')
FRESH = re.compile(r'^(FV\d+|ack\d+|__x\d+|\.def_\d+)$')


def skey(f):
    """Structural key of an FNode (environment free)."""
    return canon(B.describe(f))


def _digest(x):
    import hashlib
    return hashlib.sha1(repr(x).encode('utf-8', 'replace')).hexdigest()


def _key1(b, fresh_map, memo):
    """Digest of b (fixed size: a nested tuple would make repr/sort cost
    exponential on shared DAGs)."""
    k = id(b)
    if k in memo:
        return memo[k]
    op, pl, kids = b
    if op == 'sym' and FRESH.match(pl[0]):
        r = _digest(('sym', (fresh_map.get(pl[0], '?fresh'), pl[1]), ()))
    else:
        ks = [_key1(c, fresh_map, memo) for c in kids]
        if op in COMMUTATIVE:
            ks = sorted(ks)
        if op in ('forall', 'exists'):
            pl = tuple(sorted((fresh_map.get(n, '?fresh') if FRESH.match(n)
                               else n, t) for (n, t) in pl))
        elif op == 'app' and FRESH.match(pl[0]):
            pl = (fresh_map.get(pl[0], '?fresh'), pl[1])
        if op == 'arrayval':
            pairs = sorted(zip(ks[1::2], ks[2::2]))
            flat = [ks[0]]
            for a, c in pairs:
                flat += [a, c]
            ks = flat
        r = _digest((op, pl, tuple(ks)))
    memo[k] = r
    return r


def _fresh_order(b, acc, seen):
    if id(b) in seen:
        return
    seen.add(id(b))
    op, pl, kids = b
    if op == 'sym' and pl[0].startswith('?') is False and FRESH.match(pl[0]):
        if pl[0] not in acc:
            acc.append(pl[0])
    if op in ('forall', 'exists'):
        for (n, _) in pl:
            if FRESH.match(n) and n not in acc:
                acc.append(n)
    for c in kids:
        _fresh_order(c, acc, seen)


def ackey_bp(b):
    """Key of a blueprint modulo order of commutative arguments, order of
    bound variables and names of fresh symbols."""
    # pass 1: all fresh names collapsed; gives a name-independent ordering
    blind = {}
    _key1(b, {}, blind)
    # rebuild with original names but children in the pass-1 order
    order = _ordered(b, {}, blind)
    acc = []
    _fresh_order(order, acc, set())
    fmap = {n: '?f%d' % i for i, n in enumerate(acc)}
    return _key1(order, fmap, {})


def _ordered(b, memo, blind):
    """b with commutative children sorted by their fresh-blind digest
    (blind: id(sub-blueprint of the original) -> digest)."""
    k = id(b)
    if k in memo:
        return memo[k]
    op, pl, kids = b
    ks = [(blind[id(c)], _ordered(c, memo, blind)) for c in kids]
    if op in COMMUTATIVE:
        ks = sorted(ks, key=lambda x: x[0])
    if op == 'arrayval':
        pairs = sorted(zip(ks[1::2], ks[2::2]), key=lambda p: p[0][0])
        flat = [ks[0]]
        for a, c in pairs:
            flat += [a, c]
        ks = flat
    r = (op, pl, tuple(x[1] for x in ks))
    memo[k] = r
    return r


def ackey(f):
    return ackey_bp(B.describe(f))


def blindkey(f):
    """Weaker key for results that introduce fresh symbols: all fresh names
    collapse into one placeholder; the number of distinct fresh symbols is
    kept.  (Canonical labelling of fresh names is ambiguous when two
    sub-formulas differ only in fresh names.)"""
    b = B.describe(f)
    acc = []
    _fresh_order(b, acc, set())
    return (_key1(b, {}, {}), len(acc))
