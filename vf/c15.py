"""C15 - a failing call leaves no trace."""
import random
import sys
import warnings
from io import StringIO

from . import bp as B
from . import gen as G
from . import monitors as M
from . import common
from . import keys as K
from .c14 import val, outcome

PROP = 'C15'


class InjectedFault(Exception):
    pass


class FailPoints(object):
    """Source-free fail-points: a sys.monitoring PY_START callback raises on
    the k-th entry into a monitored walk_* function."""

    def __init__(self):
        self.mon = sys.monitoring
        self.tool = self.mon.PROFILER_ID
        try:
            self.mon.use_tool_id(self.tool, 'vf-failpoints')
        except ValueError:
            pass
        self.armed = False
        self.count = 0
        self.at = 0
        self.fired = None
        self.codes = set()
        self.mon.register_callback(self.tool, self.mon.events.PY_START,
                                   self.cb)

    def watch_class(self, cls):
        for klass in cls.__mro__:
            for k, v in vars(klass).items():
                if (k.startswith('walk_') or k in ('_get_children',)) and \
                        hasattr(v, '__code__'):
                    c = v.__code__
                    if c not in self.codes:
                        self.codes.add(c)
                        self.mon.set_local_events(
                            self.tool, c, self.mon.events.PY_START)

    def cb(self, code, offset):
        if not self.armed:
            return
        self.count += 1
        if self.count == self.at:
            self.armed = False
            self.fired = code.co_name
            raise InjectedFault(code.co_name)

    def arm(self, at):
        self.armed, self.count, self.at, self.fired = True, 0, at, None

    def disarm(self):
        self.armed = False


def probes():
    """name -> fn(env, ctx, pool) returning a raw result."""
    from pysmt import rewritings as RW
    from pysmt.oracles import get_logic
    from pysmt.parsing import HRParser
    from pysmt.smtlib.script import smtlibscript_from_formula

    def sub_ident(env, ctx, f):
        fv = sorted((s for s in f.get_free_variables()
                     if not s.symbol_type().is_function_type()),
                    key=lambda s: s.symbol_name())
        if not fv:
            return f.substitute({})
        others = [x for x in fv[1:] if x.symbol_type() == fv[0].symbol_type()]
        return f.substitute({fv[0]: others[0]} if others else {fv[0]: fv[0]})

    def reparse(env, ctx, f):
        buf = StringIO()
        with warnings.catch_warnings():
            warnings.simplefilter('ignore')
            smtlibscript_from_formula(f).serialize(buf)
        return ctx['smt_parser'].get_script(
            StringIO(buf.getvalue())).get_last_formula()

    def declare_new_names(env, ctx, f):
        # a script that declares names no formula of the pool uses (the
        # malformed declarations of 'smtlib_malformed_declaration' try to
        # declare them at other sorts)
        txt = ('(declare-sort c15S 0)(declare-fun c15new () Real)'
               '(declare-fun c15fn (Real) Bool)(declare-const c15c c15S)'
               '(define-fun c15df ((a Real)) Real (+ a 0.5))'
               '(assert (and (c15fn (c15df c15new)) (= c15c c15c)))')
        return ctx['smt_parser'].get_script(StringIO(txt)).get_last_formula()

    def generator_reads_names(env, ctx, f):
        # the same parser object goes on reading, command by command
        # (get_command_generator does not start afresh)
        txt = '(assert (> c15g 0))'
        cmds = list(ctx['gen_parser'].get_command_generator(StringIO(txt)))
        return cmds[-1].args[0]

    P = {
        'simplify': lambda env, ctx, f: f.simplify(),
        'substitute': sub_ident,
        'substitute_empty': lambda env, ctx, f: f.substitute({}),
        'free_vars': lambda env, ctx, f: f.get_free_variables(),
        'atoms': lambda env, ctx, f: f.get_atoms(),
        'get_type': lambda env, ctx, f: f.get_type(),
        'is_qf': lambda env, ctx, f: env.qfo.is_qf(f),
        'theory': lambda env, ctx, f: env.theoryo.get_theory(f),
        'logic': lambda env, ctx, f: get_logic(f, env),
        'size': lambda env, ctx, f: f.size(),
        'size_dag': lambda env, ctx, f: f.size(1),
        'types': lambda env, ctx, f: set(env.typeso.get_types(f)),
        'serialize': lambda env, ctx, f: f.serialize(),
        'to_smtlib': lambda env, ctx, f: f.to_smtlib(),
        'nnf': lambda env, ctx, f: RW.nnf(f, env),
        'reparse': reparse,
        'hr_reparse': lambda env, ctx, f: ctx['hr_parser'].parse(
            f.serialize()),
        'normalize': lambda env, ctx, f: env.formula_manager.normalize(f),
        'declare_new_names': declare_new_names,
        'generator_reads_names': generator_reads_names,
    }
    return P


def order_sensitive(f):
    b = B.describe(f)
    return any(s[0] == 'arrayval' and len(s[2]) > 3 for s in B.subterms(b))


class Checker(object):
    def __init__(self, rep):
        self.rep = rep
        self.rng = random.Random(rep.seed * 982451653 % (2 ** 31) + rep.shard)
        self.P = probes()
        self.fp = FailPoints()
        import pysmt.simplifier
        import pysmt.substituter
        import pysmt.oracles as O
        import pysmt.type_checker
        import pysmt.rewritings as RW
        import pysmt.printers
        import pysmt.smtlib.printers as SP
        import pysmt.formula
        for cls in (pysmt.simplifier.Simplifier,
                    pysmt.substituter.MGSubstituter,
                    pysmt.substituter.MSSubstituter, O.FreeVarsOracle,
                    O.AtomsOracle, O.TheoryOracle, O.TypesOracle,
                    O.QuantifierOracle, O.SizeOracle, RW.NNFizer,
                    pysmt.printers.HRPrinter, SP.SmtPrinter,
                    SP.SmtDagPrinter, pysmt.formula.FormulaContextualizer):
            self.fp.watch_class(cls)

    # -- failing calls --------------------------------------------------
    def failing_call(self, kind, env, ctx, pool, rng):
        """Perform one call that is expected to raise.  Returns the outcome
        ('exc', name) or ('ok', ...) if it did not fail."""
        import pysmt.typing as T
        mgr = env.formula_manager
        f = pool[0]
        if kind.startswith('in_with_env:'):
            # the failing call is made inside the library's own context
            # manager for a temporary environment
            from pysmt.environment import Environment

            def block():
                with Environment() as inner:
                    inner.formula_manager.Symbol('c15_inner')
                    r = self.failing_call(kind.split(':', 1)[1], env, ctx,
                                          pool, rng)
                    if r is not None and r[0] == 'exc':
                        raise InjectedFault(r[1])
                    return r
            try:
                return block()
            except InjectedFault as e:
                return ('exc', str(e))
        if kind == 'ill_typed_substitution':
            fv = sorted((s for s in f.get_free_variables()
                         if not s.symbol_type().is_function_type()),
                        key=lambda s: s.symbol_name())
            if not fv:
                return None
            x = fv[rng.randrange(len(fv))]
            wrong = mgr.Real(1) if not x.symbol_type().is_real_type() \
                else mgr.TRUE()
            return outcome(lambda: f.substitute({x: wrong}))
        if kind == 'ill_typed_substitution_mss':
            from pysmt.substituter import MSSubstituter
            fv = sorted((s for s in f.get_free_variables()
                         if not s.symbol_type().is_function_type()),
                        key=lambda s: s.symbol_name())
            if not fv:
                return None
            x = fv[rng.randrange(len(fv))]
            wrong = mgr.String('w') if not x.symbol_type().is_string_type() \
                else mgr.TRUE()
            ctx.setdefault('mss', MSSubstituter(env))
            return outcome(lambda: ctx['mss'].substitute(f, {x: wrong}))
        if kind.startswith('failpoint:'):
            what = kind.split(':')[1]
            self.fp.arm(rng.randint(1, 12))
            try:
                r = outcome(lambda: self.P[what](env, ctx, f))
            finally:
                self.fp.disarm()
            if self.fp.fired is None:
                return None
            self.rep.count('failpoint_' + what)
            return r
        if kind == 'ill_typed_construction':
            x = mgr.Symbol('c15_i', T.INT)
            return outcome(lambda: mgr.And(f if f.get_type().is_bool_type()
                                           else mgr.TRUE(), x))
        if kind == 'symbol_redefinition':
            mgr.Symbol('c15_sym', T.INT)
            return outcome(lambda: mgr.Symbol('c15_sym', T.BOOL))
        if kind == 'symbol_bad_type':
            bad_t = rng.choice(['Int', None, 3, T.INT.__class__, (T.INT,)])
            nm = rng.choice(['c15new', 'c15fn', 'c15c'])
            return outcome(lambda: mgr.Symbol(nm, bad_t))
        if kind == 'fresh_symbol_bad_type':
            return outcome(lambda: mgr.FreshSymbol('not a type'))
        if kind == 'bad_constant':
            return outcome(lambda: mgr.Int('12'))
        if kind == 'hr_undefined_symbol':
            return outcome(lambda: ctx['hr_parser'].parse(
                '(c15_undefined_a & %s)' % ('p0',)))
        if kind == 'hr_syntax_error':
            return outcome(lambda: ctx['hr_parser'].parse('(p0 & & q'))
        if kind == 'smtlib_malformed':
            txt = ctx['good_script']
            toks = txt.split(' ')
            k = rng.randrange(len(toks))
            mode = rng.random()
            if mode < 0.4:
                bad = ' '.join(toks[:k])              # truncated
            elif mode < 0.7:
                bad = ' '.join(toks[:k] + [')'] + toks[k:])
            else:
                bad = ' '.join(toks[:k] + ['(c15_unknown_op'] + toks[k:])
            return outcome(lambda: ctx['smt_parser'].get_script(
                StringIO(bad)))
        if kind == 'smtlib_malformed_declaration':
            # one malformed command that would declare a new name
            bad = rng.choice([
                '(declare-fun c15new () Int oops)',
                '(declare-fun c15new (Int Int',
                '(declare-fun c15new () Int',
                '(declare-const c15new Int Int)',
                '(declare-const c15c Bool',
                '(declare-fun c15fn (Int) Int junk)',
                '(define-fun c15df ((a Int)) Int a a)',
                '(define-fun c15df ((a Int)) Int (+ a true))',
                '(define-fun c15df ((a Int)) Bool a)',
                '(declare-sort c15S 1 1)',
            ])
            return outcome(lambda: ctx['smt_parser'].get_script(
                StringIO(bad)))
        if kind == 'smtlib_generator_fails_in_binder':
            # a command read through get_command_generator fails inside a
            # let / quantifier / definition that binds a global name
            bad = rng.choice([
                '(assert (let ((c15g 5)) (> c15g true)))',
                '(assert (forall ((c15g Real)) (> c15g true)))',
                '(define-fun c15h ((c15g Bool)) Int (+ c15g 1))',
            ])
            return outcome(lambda: list(
                ctx['gen_parser'].get_command_generator(StringIO(bad))))
        if kind == 'smtlib_fails_after_declarations':
            # well-formed declarations of new names, then a command that
            # fails
            bad = rng.choice([
                '(declare-fun c15fn (Int) Int))',
                '(declare-fun c15new () Int)(declare-fun c15fn (Int) Int)'
                '(assert (c15fn c15new))',
                '(declare-const c15new Bool)(assert (and c15new',
                '(declare-sort c15S 1)(declare-fun c15new () Int)(frob)',
            ])
            return outcome(lambda: ctx['smt_parser'].get_script(
                StringIO(bad)))
        if kind == 'smtlib_type_error':
            bad = ('(set-logic QF_LRA)(define-fun c15_inc ((x Real)) Real '
                   '(+ x 1))(declare-fun c15_p () Bool)'
                   '(assert (< (c15_inc c15_p) 2))')
            return outcome(lambda: ctx['smt_parser'].get_script(
                StringIO(bad)))
        if kind == 'smtlib_undeclared':
            bad = '(set-logic QF_LIA)(assert (> c15_nowhere 0))(check-sat)'
            return outcome(lambda: ctx['smt_parser'].get_script(
                StringIO(bad)))
        raise ValueError(kind)

    KINDS = ['ill_typed_substitution', 'ill_typed_substitution_mss',
             'ill_typed_construction', 'symbol_redefinition',
             'fresh_symbol_bad_type', 'symbol_bad_type', 'bad_constant', 'hr_undefined_symbol',
             'hr_syntax_error', 'smtlib_malformed', 'smtlib_type_error',
             'smtlib_undeclared', 'smtlib_malformed_declaration',
             'smtlib_fails_after_declarations',
             'smtlib_generator_fails_in_binder',
             'in_with_env:ill_typed_construction',
             'in_with_env:bad_constant', 'in_with_env:hr_syntax_error'] + [
        'failpoint:' + p for p in ('simplify', 'substitute', 'free_vars',
                                   'atoms', 'theory', 'types', 'size', 'nnf',
                                   'serialize', 'to_smtlib', 'is_qf',
                                   'normalize')]

    def setup(self, env, bps):
        from pysmt.smtlib.parser import SmtLibParser
        from pysmt.parsing import HRParser
        from pysmt.smtlib.script import smtlibscript_from_formula
        pool = []
        for b in bps:
            o = outcome(lambda: B.build(b, env))
            if o[0] == 'ok':
                pool.append(o[1])
        ctx = {'smt_parser': SmtLibParser(env), 'hr_parser': HRParser(env),
               'gen_parser': SmtLibParser(env)}
        # (a stream the generator-based probes continue)
        list(ctx['gen_parser'].get_command_generator(
            StringIO('(declare-fun c15g () Int)')))
        if pool:
            buf = StringIO()
            with warnings.catch_warnings():
                warnings.simplefilter('ignore')
                try:
                    smtlibscript_from_formula(pool[0]).serialize(buf)
                    ctx['good_script'] = buf.getvalue()
                except Exception:
                    ctx['good_script'] = '(assert true)'
        env.formula_manager.Symbol('p0')
        return pool, ctx

    def probe_all(self, env, ctx, pool, plan):
        out = []
        for (pname, idx) in plan:
            f = pool[idx % len(pool)]
            o = outcome(lambda: self.P[pname](env, ctx, f))
            if o[0] == 'ok':
                if pname in ('serialize', 'to_smtlib', 'reparse',
                             'hr_reparse') and order_sensitive(f):
                    out.append((pname, idx, ('skipped',)))
                    continue
                out.append((pname, idx, ('ok', val(o[1]))))
            else:
                out.append((pname, idx, o))
        return out

    def walker_state(self, env, ctx):
        """Quiescent-point invariant: no long-lived walker keeps work."""
        bad = []
        for name in ('simplifier', 'substituter', 'stc', 'qfo', 'theoryo',
                     'fvo', 'sizeo', 'ao', 'typeso'):
            w = getattr(env, name)
            if getattr(w, 'stack', None):
                bad.append('%s.stack has %d entries' % (name, len(w.stack)))
            if getattr(w, 'invalidate_memoization', False) and w.memoization:
                bad.append('%s one-shot memo has %d entries' % (
                    name, len(w.memoization)))
        if 'mss' in ctx:
            if ctx['mss'].stack or ctx['mss'].memoization:
                bad.append('MSSubstituter keeps stack/memo')
        return bad

    def run_case(self, j):
        from pysmt.environment import Environment, push_env, pop_env
        rep = self.rep
        rng = self.rng
        cfg = [G.Cfg(max_depth=4, share=0.4),
               G.Cfg(max_depth=3, quant=False, share=0.4),
               G.Cfg(max_depth=4, strings=False, arrays=False, share=0.5)][
            j % 3]
        g = G.Gen(rng, cfg)
        target = g.term(B.BOOL)
        subs = [s for s in B.subterms(target) if s[2]]
        bps = [target]
        for _ in range(rng.randint(2, 5)):
            k = rng.random()
            if subs and k < 0.5:
                bps.append(rng.choice(subs))
            else:
                bps.append(('or', None, (target, g.term(B.BOOL, 2))))
        kind = self.KINDS[(j * 7 + rep.shard) % len(self.KINDS)]
        pnames = sorted(self.P)
        prefix = [(rng.choice(pnames), rng.randrange(6))
                  for _ in range(rng.randint(0, 6))]
        plan = [(rng.choice(pnames), rng.randrange(6))
                for _ in range(rng.randint(4, 10))]
        # make sure the same procedure as the failing one is probed
        if kind.startswith('failpoint:'):
            plan.insert(0, (kind.split(':')[1], 0))
            plan.insert(1, (kind.split(':')[1], 1))
        elif 'substitution' in kind:
            plan.insert(0, ('substitute', 0))
            plan.insert(1, ('substitute', 1))
        elif kind == 'symbol_bad_type':
            plan.insert(0, ('declare_new_names', 0))
        elif kind.startswith('hr_'):
            plan.insert(0, ('hr_reparse', 0))
        elif kind.startswith('smtlib_'):
            plan.insert(0, ('reparse', 0))
            plan.insert(1, ('reparse', 1))
            if kind in ('smtlib_malformed_declaration',
                        'smtlib_fails_after_declarations'):
                plan.insert(0, ('declare_new_names', 0))
            if kind == 'smtlib_generator_fails_in_binder':
                plan.insert(0, ('generator_reads_names', 0))
        self.run_twins(j, rep.shard, target, bps, kind, prefix, plan)

    def run_twins(self, j, shard, target, bps, kind, prefix, plan):
        from pysmt.environment import Environment, push_env, pop_env
        rep = self.rep
        results = {}
        failed = None
        wstate = []
        for which in ('A', 'B'):
            env = Environment()
            push_env(env)
            try:
                env.enable_infix_notation = True
                pool, ctx = self.setup(env, bps)
                if not pool:
                    return
                self.probe_all(env, ctx, pool, prefix)
                import pysmt.environment as PE
                stack_depth = len(PE.ENVIRONMENTS_STACK)
                if which == 'A':
                    r2 = random.Random(j * 1009 + shard)
                    failed = self.failing_call(kind, env, ctx, pool, r2)
                    if failed is None:
                        rep.count('failing_call_not_applicable')
                        return
                    if failed[0] != 'exc':
                        rep.count('call_did_not_fail')
                        return
                    wstate = self.walker_state(env, ctx)
                    from pysmt.environment import get_env
                    import pysmt.environment as PE
                    if get_env() is not env:
                        wstate.append('the current environment is not the '
                                      'one that was current before the call')
                    if len(PE.ENVIRONMENTS_STACK) != stack_depth:
                        wstate.append('the stack of environments has %d '
                                      'entries, %d before the call' % (
                                          len(PE.ENVIRONMENTS_STACK),
                                          stack_depth))
                results[which] = self.probe_all(env, ctx, pool, plan)
            finally:
                import pysmt.environment as PE
                while PE.ENVIRONMENTS_STACK and pop_env() is not env:
                    pass
        rep.count('failures_injected')
        rep.count('kind_' + kind.split(':')[0])
        rep.case(key=(kind, hash(target), j),
                 sample='%s (%s) then %d probes on %s' % (
                     kind, failed[1], len(plan), B.show(target, 80))
                 if j % 53 == 0 else None)
        for (pa, pb) in zip(results['A'], results['B']):
            rep.count('probes_compared')
            if pa != pb:
                rep.violation(
                    '%s/trace/%s/%s' % (PROP, kind, pa[0]),
                    'after a failing %s (%s), %s on formula #%d gives %s; '
                    'without the failing call %s' % (
                        kind, failed[1], pa[0], pa[1], str(pa[2])[:200],
                        str(pb[2])[:200]),
                    {'bp': B.to_json(target), 'kind': kind, 'j': j,
                     'shard': shard, 'bps': [B.to_json(x) for x in bps],
                     'prefix': prefix, 'plan': plan})
                break
        if wstate:
            rep.violation('%s/walker-state/%s' % (PROP, kind.split(':')[0]),
                          'after a failing %s: %s' % (kind, '; '.join(wstate)),
                          {'bp': B.to_json(target), 'kind': kind})


def solver_cases(rep, rng, n):
    """A failing call on a solver object leaves no trace: twin brute-force
    solvers (pySMT's IncrementalTrackingSolver book-keeping), one of which
    sees a failing call."""
    from .brutesolver import classes
    import pysmt.logics as L
    import pysmt.typing as T
    BruteSolver, _ = classes()
    fails = ['assert_non_boolean', 'get_value_function', 'assert_foreign',
             'is_sat_non_boolean', 'is_valid_non_boolean', 'pop_beyond',
             'opt_backend_error_binary', 'opt_backend_error_linear',
             'opt_min_bool_term', 'opt_lexi_with_bool', 'opt_bad_strategy',
             'opt_boxed_with_bool', 'opt_pareto_with_bool',
             'opt_lexi_maxsmt', 'opt_min_string_term']
    from .c18 import opt_classes
    for j in range(n):
        if rep.out_of_time():
            break
        kind = fails[j % len(fails)]
        plan = [rng.choice(['assert', 'push', 'pop', 'solve', 'is_sat',
                            'assert', 'solve'])
                for _ in range(rng.randint(2, 8))]
        after = [rng.choice(['assert', 'push', 'pop', 'solve', 'is_sat',
                             'get_value', 'last', 'assertions'])
                 for _ in range(rng.randint(3, 8))] + ['last', 'assertions']
        at = rng.randrange(len(plan) + 1)
        res = {}
        failed = None
        for which in ('A', 'B'):
            env = common.fresh_env()
            mgr = env.formula_manager
            syms = [mgr.Symbol('s%d' % i) for i in range(40)]
            opts = {}
            if kind == 'solve_unknown' and which == 'A':
                pass
            if kind.startswith('opt_'):
                # an optimizer: pySMT's mix-in over the brute-force solver
                cls = opt_classes()[['sua', 'incremental'][(j // len(fails))
                                                           % 2]]
                solver = cls(env, L.QF_LIA)
                ox = mgr.Symbol('c15_ox', T.INT)
                solver.add_assertion(mgr.And(mgr.LE(mgr.Int(0), ox),
                                             mgr.LE(ox, mgr.Int(3))))
            else:
                solver = BruteSolver(env, L.QF_BOOL)
            depth = [0]
            k = [0]
            just_solved = [False]

            def do(op):
                k[0] += 1
                a, b = syms[2 * k[0] % 40], syms[(2 * k[0] + 1) % 40]
                if op != 'get_value' and op != 'solve':
                    just_solved[0] = False
                if op == 'assert':
                    solver.add_assertion(mgr.Or(a, b))
                elif op == 'push':
                    solver.push()
                    depth[0] += 1
                elif op == 'pop':
                    if depth[0] > 0:
                        solver.pop()
                        depth[0] -= 1
                elif op == 'solve':
                    r = solver.solve()
                    just_solved[0] = bool(r)
                    return r
                elif op == 'is_sat':
                    return solver.is_sat(mgr.And(a, mgr.Not(b)))
                elif op == 'get_value':
                    # (legal only right after a solve() that said sat; the
                    # harness tracks this itself)
                    if just_solved[0]:
                        just_solved[0] = False
                        return str(solver.get_value(a))
                    return None
                elif op == 'last':
                    if kind.startswith('opt_') or kind.startswith('is_'):
                        # a failing optimisation / one-shot query has made
                        # stack or solver calls of its own: these
                        # attributes legitimately differ
                        return None
                    return (solver.last_command, solver.last_result)
                elif op == 'assertions':
                    return [str(x) for x in solver.assertions]
                return None
            out = []
            try:
                for i, op in enumerate(plan):
                    if i == at and which == 'A':
                        failed = _solver_fail(kind, solver, env, mgr)
                    out.append(outcome(lambda: do(op)))
                if at == len(plan) and which == 'A':
                    failed = _solver_fail(kind, solver, env, mgr)
                # a pending pop of a one-shot query may legitimately be
                # flushed by the failing call: flush it in both twins
                solver.assertions
                out = []
                for op in after:
                    o = outcome(lambda: do(op))
                    out.append((op, o if o[0] == 'exc' else ('ok',
                                                             repr(o[1]))))
            finally:
                try:
                    solver.exit()
                except Exception:
                    pass
            res[which] = out
        if failed is None or failed[0] != 'exc':
            rep.count('call_did_not_fail')
            continue
        rep.count('failures_injected')
        rep.count('kind_solver_' + kind)
        rep.case(key=('solver', kind, j, rep.shard))
        for pa, pb in zip(res['A'], res['B']):
            rep.count('probes_compared')
            if pa != pb:
                rep.violation(
                    '%s/trace/solver/%s/%s' % (PROP, kind, pa[0]),
                    'after a failing %s (%s) on a solver: %s gives %s; '
                    'without the failing call %s (prefix %s, at %d)' % (
                        kind, failed[1], pa[0], pa[1], pb[1], plan, at),
                    {'kind': kind, 'plan': plan, 'after': after})
                break


TEXT_FAILS = ['fault:declare-fun2:error', 'fault:declare-fun3:unsupported',
              'fault:push:unsupported', 'fault:pop:unsupported',
              'fault:reset-assertions:unsupported', 'fault:assert:error',
              'fault:declare-fun:error', 'fault:check-sat:error',
              'fault:push:error', 'fault:pop:error',
              'fault:reset-assertions:error', 'fault:assert:unsupported',
              'pop_beyond', 'pop_beyond_2', 'assert_non_boolean',
              'get_value_without_model', 'get_value_undeclared']


def text_solver_cases(rep, rng, n):
    """A failing call on a solver driven through the textual interface: twin
    SmtLibSolver objects, each over a reference solver process of its own
    (vf/refsolver.py, strict); one twin sees a call that fails - because the
    solver answers 'unsupported' / an error to one command (armed through
    the process's one-shot fault file), or because the call is illegal."""
    import json
    import os
    import pysmt.logics as L
    import pysmt.typing as T
    from .c17 import PY, REFSOLVER, logdir
    for j in range(n):
        if rep.out_of_time():
            break
        kind = TEXT_FAILS[(j + rep.shard) % len(TEXT_FAILS)]
        ops = ['assert', 'assert', 'push', 'pop', 'solve', 'assert_new',
               'reset', 'push2']
        plan = [rng.choice(ops) for _ in range(rng.randint(1, 7))]
        after = [rng.choice(ops + ['get_value', 'solve', 'pop', 'assert_new'])
                 for _ in range(rng.randint(4, 9))] + ['solve']
        if 'declare-fun' in kind:
            after.insert(rng.randrange(3), 'retry')
            after.insert(rng.randrange(3, len(after)), 'retry')
        at = rng.randrange(len(plan) + 1)
        res = {}
        failed = None
        for which in ('A', 'B'):
            env = common.fresh_env()
            mgr = env.formula_manager
            fault = os.path.join(logdir(), 'fault_%d_%d_%d_%s.json' % (
                os.getpid(), rep.shard, j, which))
            if os.path.exists(fault):
                os.unlink(fault)
            name = 'c15t%d%s' % (j, which)
            env.factory.add_generic_solver(
                name, [PY, REFSOLVER, '--name', name, '--fault', fault],
                list(L.PYSMT_LOGICS))
            solver = env.factory.Solver(name=name, logic=L.QF_BV)
            syms = [mgr.Symbol('t%d' % i) for i in range(6)]
            bvs = [mgr.Symbol('w%d' % i, T.BVType(2)) for i in range(3)]
            depth = [0]
            k = [0]
            nnew = [0]
            sat = [False]
            live = [set()]
            rsyms = [mgr.Symbol('c15_r%d' % i) for i in range(3)]
            retry_formula = mgr.Or(rsyms[0], mgr.And(rsyms[1],
                                                     mgr.Not(rsyms[2])))

            def do(op):
                k[0] += 1
                a, b = syms[k[0] % 6], syms[(k[0] * 5 + 1) % 6]
                if op not in ('get_value',):
                    was_sat, sat[0] = sat[0], False
                if op == 'assert':
                    solver.add_assertion(mgr.Or(a, mgr.Not(b)))
                    live[-1].update([a, b])
                elif op == 'assert_new':
                    # a symbol first used at this level
                    nnew[0] += 1
                    x = mgr.Symbol('n%d' % nnew[0], T.BVType(2))
                    solver.add_assertion(mgr.BVULE(x, bvs[k[0] % 3]))
                elif op in ('push', 'push2'):
                    lv = 2 if op == 'push2' else 1
                    solver.push(lv)
                    depth[0] += lv
                    for _ in range(lv):
                        live.append(set())
                elif op == 'pop':
                    if depth[0] > 0:
                        solver.pop()
                        depth[0] -= 1
                        live.pop()
                elif op == 'reset':
                    solver.reset_assertions()
                    depth[0] = 0
                    del live[1:]
                    live[0].clear()
                elif op == 'retry':
                    # the formula of the refused call (in the twin without
                    # the refusal: asserted for the first time)
                    solver.add_assertion(retry_formula)
                elif op == 'solve':
                    r = solver.solve()
                    sat[0] = bool(r)
                    return r
                elif op == 'get_value':
                    # of a symbol of a live assertion of this history (a
                    # failing add_assertion may have declared its symbols to
                    # the solver before failing: asking for the value of a
                    # symbol that only such a call mentioned is outside
                    # what the twins can be compared on; the value itself
                    # may legitimately depend on the order of declarations)
                    cands = sorted(set().union(*live),
                                   key=lambda s_: s_.symbol_name())
                    if sat[0] and cands:
                        return solver.get_value(
                            cands[k[0] % len(cands)]).is_constant()
                return None

            def fail():
                if kind.startswith('fault:'):
                    _, head, reply = kind.split(':')
                    call = {'push': lambda: solver.push(),
                            'pop': lambda: solver.pop(),
                            'reset-assertions':
                            lambda: solver.reset_assertions(),
                            'assert': lambda: solver.add_assertion(
                                mgr.Or(syms[0], syms[3])),
                            'declare-fun': lambda: solver.add_assertion(
                                mgr.Symbol('c15_never_declared')),
                            # the second / third declaration of one call
                            'declare-fun2': lambda: solver.add_assertion(
                                retry_formula),
                            'declare-fun3': lambda: solver.add_assertion(
                                retry_formula),
                            'check-sat': lambda: solver.solve()}[head]
                    if head == 'pop' and depth[0] == 0:
                        return None
                    with open(fault, 'w') as f:
                        json.dump({'head': head.rstrip('23'),
                                   'skip': int(head[-1]) - 1
                                   if head[-1] in '23' else 0,
                                   'reply': 'unsupported'
                                   if reply == 'unsupported' else
                                   '(error "injected")'}, f)
                    try:
                        o = outcome(call)
                    finally:
                        fired = not os.path.exists(fault)
                        if not fired:
                            os.unlink(fault)
                    if not fired:
                        return None
                    return o
                if kind == 'pop_beyond':
                    return outcome(lambda: solver.pop(depth[0] + 1))
                if kind == 'pop_beyond_2':
                    return outcome(lambda: solver.pop(depth[0] + 2))
                if kind == 'assert_non_boolean':
                    return outcome(lambda: solver.add_assertion(bvs[0]))
                if kind == 'get_value_without_model':
                    if sat[0]:
                        return None
                    return outcome(lambda: solver.get_value(syms[0]))
                if kind == 'get_value_undeclared':
                    if not sat[0]:
                        return None
                    return outcome(lambda: solver.get_value(
                        mgr.Symbol('c15_nobody_declared')))
                raise ValueError(kind)
            out = []
            try:
                for i, op in enumerate(plan):
                    if i == at and which == 'A':
                        failed = fail()
                        sat[0] = False
                    elif i == at:
                        sat[0] = False
                    outcome(lambda: do(op))
                if at == len(plan):
                    if which == 'A':
                        failed = fail()
                    sat[0] = False
                for op in after:
                    o = outcome(lambda: do(op))
                    out.append((op, o if o[0] == 'exc' else
                                ('ok', repr(o[1]))))
            finally:
                try:
                    solver.exit()
                except Exception:
                    pass
                try:
                    solver.solver.wait(timeout=5)
                except Exception:
                    pass
            res[which] = out
            if which == 'A' and (failed is None or failed[0] != 'exc'):
                break
        if failed is None or failed[0] != 'exc':
            rep.count('call_did_not_fail')
            continue
        rep.count('failures_injected')
        rep.count('text_solver_failures_injected')
        rep.count('kind_text_solver_' + kind.replace(':', '_'))
        rep.case(key=('textsolver', kind, j, rep.shard))
        for pa, pb in zip(res['A'], res['B']):
            rep.count('probes_compared')
            if pa != pb:
                rep.violation(
                    '%s/trace/text-solver/%s/%s' % (PROP, kind, pa[0]),
                    'after a failing call (%s: %s) on a text-interface '
                    'solver: %s gives %s; without the failing call %s '
                    '(prefix %s, at %d, then %s)' % (
                        kind, failed[1], pa[0], pa[1], pb[1], plan, at,
                        after),
                    {'kind': kind, 'plan': plan, 'after': after, 'at': at})
                break


def _solver_fail(kind, solver, env, mgr):
    import pysmt.typing as T
    from pysmt.environment import Environment
    if kind == 'assert_non_boolean':
        return outcome(lambda: solver.add_assertion(
            mgr.Plus(mgr.Symbol('c15_n', T.INT), mgr.Int(1))))
    if kind == 'is_sat_non_boolean':
        return outcome(lambda: solver.is_sat(
            mgr.Plus(mgr.Symbol('c15_n', T.INT), mgr.Int(1))))
    if kind == 'is_valid_non_boolean':
        return outcome(lambda: solver.is_valid(
            mgr.Symbol('c15_n', T.INT)))
    if kind == 'pop_beyond':
        # more pops than pushes: illegal, must fail and leave no trace
        n = len(solver.frames)
        return outcome(lambda: solver.pop(n + 1))
    if kind == 'get_value_function':
        f = mgr.Symbol('c15_f', T.FunctionType(T.INT, [T.INT]))
        return outcome(lambda: solver.get_value(f))
    if kind == 'assert_foreign':
        other = Environment()
        g = other.formula_manager.Symbol('c15_foreign')
        return outcome(lambda: solver.is_sat(g))
    if kind.startswith('opt_'):
        from pysmt.optimization.goal import MinimizationGoal, MaxSMTGoal
        ox = mgr.Symbol('c15_ox', T.INT)
        ob = mgr.Symbol('c15_ob')
        if kind == 'opt_min_bool_term':
            return outcome(lambda: solver.optimize(MinimizationGoal(ob)))
        if kind == 'opt_min_string_term':
            return outcome(lambda: solver.optimize(MinimizationGoal(
                mgr.Symbol('c15_os', T.STRING))))
        if kind == 'opt_lexi_with_bool':
            return outcome(lambda: solver.lexicographic_optimize(
                [MinimizationGoal(ox), MinimizationGoal(ob)]))
        if kind == 'opt_bad_strategy':
            return outcome(lambda: solver.optimize(MinimizationGoal(ox),
                                                   strategy='quadratic'))
        if kind == 'opt_boxed_with_bool':
            return outcome(lambda: solver.boxed_optimize(
                [MinimizationGoal(ox), MinimizationGoal(ob)]))
        if kind == 'opt_pareto_with_bool':
            return outcome(lambda: list(solver.pareto_optimize(
                [MinimizationGoal(ox), MinimizationGoal(ob)])))
        if kind in ('opt_backend_error_binary', 'opt_backend_error_linear'):
            # the back-end gives up in the middle of the search
            from pysmt.optimization.goal import MaximizationGoal
            solver.options.unknown_on = solver.n_solve_calls + 2

            def go():
                try:
                    return solver.optimize(
                        MaximizationGoal(ox),
                        strategy=kind.rsplit('_', 1)[1])
                finally:
                    solver.options.unknown_on = None
            return outcome(go)
        if kind == 'opt_lexi_maxsmt':
            return outcome(lambda: solver.lexicographic_optimize(
                [MinimizationGoal(ox), MaxSMTGoal()]))
    if kind == 'solve_unknown':
        from pysmt.exceptions import SolverReturnedUnknownResultError
        solver.options.unknown_on = solver.n_solve_calls + 1

        def go():
            try:
                return solver.solve()
            finally:
                solver.options.unknown_on = None
        return outcome(go)
    raise ValueError(kind)


def factory_cases(rep):
    """A refused registration / selection on the solver factory leaves no
    trace: twin environments, one of which sees the failing calls."""
    import pysmt.logics as L
    res = {}
    failed = []
    for which in ('A', 'B'):
        env = common.fresh_env()
        fac = env.factory
        fac.add_generic_solver('c15g', ['/bin/echo', 'one'],
                               [L.QF_LIA, L.QF_UFLIA])
        if which == 'A':
            for call in (
                    lambda: fac.add_generic_solver(
                        'c15g', ['/bin/false', 'two', 'x'], [L.QF_BV]),
                    lambda: fac.add_generic_solver(
                        'c15g', ['/bin/echo', 'one'], [L.QF_LIA],
                        unsat_core_support=True),
                    lambda: fac.get_solver(name='c15_no_such_solver'),
                    lambda: fac.get_solver(name='c15g', logic=L.QF_BV),
                    lambda: fac.get_quantifier_eliminator(
                        name='c15_no_such')):
                failed.append(outcome(call))
        probes = [
            ('info', lambda: repr(fac.get_generic_solver_info('c15g'))),
            ('is_generic', lambda: fac.is_generic_solver('c15g')),
            ('all_solvers', lambda: sorted(fac.all_solvers())),
            ('all_lia', lambda: sorted(fac.all_solvers(logic=L.QF_LIA))),
            ('all_bv', lambda: sorted(fac.all_solvers(logic=L.QF_BV))),
            ('cores', lambda: sorted(fac.all_unsat_core_solvers())),
            ('prefs', lambda: repr(sorted(fac.preferences.items()))),
            ('qelims', lambda: sorted(fac.all_quantifier_eliminators())),
        ]
        res[which] = [(n, outcome(fn)) for n, fn in probes]
    nfail = sum(1 for o in failed if o[0] == 'exc')
    rep.count('failures_injected', nfail)
    rep.count('factory_failures_injected', nfail)
    rep.case(key='factory')
    for (na, oa), (nb, ob) in zip(res['A'], res['B']):
        rep.count('probes_compared')
        if oa != ob:
            rep.violation('%s/trace/factory/%s' % (PROP, na),
                          'after refused factory calls %s, %s gives %s; '
                          'without them %s' % ([o[1] for o in failed
                                                if o[0] == 'exc'], na,
                                               str(oa)[:200], str(ob)[:200]),
                          {'kind': 'factory'})


def run(rep):
    if rep.shard == 2 % rep.nshards and (not rep.only or
                                         rep.only == 'factory'):
        factory_cases(rep)
    rep.share(0.35)
    if not rep.only or rep.only == 'solver':
        solver_cases(rep, random.Random(rep.seed * 31 + rep.shard),
                     150 if rep.tier == 'quick' else 20000)
    rep.share(0.5)
    if not rep.only or rep.only == 'text':
        text_solver_cases(rep, random.Random(rep.seed * 37 + rep.shard + 1),
                          30 if rep.tier == 'quick' else 3000)
    rep.share(1.0)
    ck = Checker(rep)
    n = 400 if rep.tier == 'quick' else 30000
    j = 0
    while j < n and not rep.out_of_time():
        if rep.only and rep.only not in Checker.KINDS[
                (j * 7 + rep.shard) % len(Checker.KINDS)]:
            j += 1
            continue
        ck.run_case(j)
        j += 1
    if j < n:
        rep.notes.append('truncated at %d of %d' % (j, n))


def replay(case, rep):
    c = case.get('case') or {}
    if 'bps' in c:
        ck = Checker(rep)
        bps = [B.from_json(x) for x in c['bps']]
        ck.run_twins(c['j'], c['shard'], bps[0], bps, c['kind'],
                     [tuple(x) for x in c['prefix']],
                     [tuple(x) for x in c['plan']])
        return
    rep.only = None
    run(rep)
