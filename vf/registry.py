"""Property table: module, shards, budgets, evidence texts."""

PROPS = {}


def reg(pid, **kw):
    PROPS[pid] = kw


reg('C01', module='c01', level='exploration',
    technique=('runtime monitoring: post-condition oracle on '
               'Simplifier.simplify (icontract) + independent reference '
               'evaluator over enumerated and random formulas'),
    level_text=('every simplify() result observed is compared with its input '
                'by an independent SMT-LIB evaluator on all interpretations '
                '(finite symbol domains) or 16-24 corner-first samples; '
                'type and free symbols are re-derived independently. Held '
                'on the K executions reported in the evidence file, not a '
                'proof.'),
    level_note=('trusts vf/refeval.py (own SMT-LIB semantics) and vf/bp.py '
                'typing; Int/Real quantifiers are evaluated over finite '
                'domains'),
    rule=('systematic operator x operand-shape enumeration, exhaustive BV '
          'widths, string/division grids, random DAGs; a case is the built '
          'formula; distinct = distinct structural key of the input; '
          'non-trivial = the result was compared with the reference '
          'evaluator on >= 1 interpretation'),
    assumptions=['reference evaluator vf/refeval.py implements SMT-LIB 2.6 '
                 'semantics (trusted base)',
                 'Int/Real quantifiers evaluated over finite domains D '
                 '(property is stated for every non-empty domain)',
                 'interpretations with a division by zero are skipped'],
    require={'quick': {'compared': 2000, 'contract_evals': 2000}})

reg('C02', module='c02', level='exploration',
    technique=('runtime monitoring: EagerModel.get_value / get_py_value / '
               'satisfies / [] observed against an independent reference '
               'evaluator; icontract post-condition on get_value'),
    rule=('every constant-operand case of the C01 enumerations with the '
          'constants moved into the model (symbols substituted), plus '
          'random QF UF-free formulas of every result type with total and '
          'partial assignments; distinct = (formula key, dropped symbols); '
          'non-trivial = a value was returned and compared'),
    level_text=('each model query result is compared with the value the '
                'reference evaluator computes under the assignment (plus '
                'documented defaults); no-completion answers are compared '
                'with up to 8 (all, when finite) completions. Held on the '
                'executions reported, not a proof.'),
    level_note='trusts vf/refeval.py; division-by-zero cases are skipped',
    assumptions=['reference evaluator is the specification of each operator',
                 'symbols of String/Array sort that are absent from the '
                 'model have no documented default: an exception is accepted'],
    require={'quick': {'values_compared': 2000, 'contract_evals': 2000,
                       'satisfies_compared': 200,
                       'nocompletion_values_checked': 20}})

reg('C03', module='c03', level='exploration',
    technique=('runtime monitoring: application matrix of every public '
               'constructor vs independent typing rules + create_node '
               'wrapper typing every node born in any workload'),
    rule=('every FormulaManager constructor x every tuple of argument sorts '
          '(11 sorts; arity<=2 complete, arity 3/4 sampled in quick, larger '
          'in thorough) x index parameters; each application is attempted '
          'twice; distinct = (constructor, sort tuple); plus a mixed '
          'transformation workload under the create_node monitor'),
    level_text=('outcome (formula vs exception) and reported type of each '
                'application are compared with independently written typing '
                'rules; every FNode created anywhere is re-typed from its '
                'children by the create_node monitor. Held on the '
                'applications/nodes reported.'),
    level_note=('trusts vf/bp.py typing rules (SMT-LIB signatures; pySMT '
                'documented signature for Pow/BVComp/bv2nat/array values); '
                'unary n-ary applications, negative rotation and repeat<=0 '
                'are outside the property text and not judged'),
    assumptions=['arguments are terms (no function-typed operands)',
                 'any exception type counts as rejection'],
    require={'quick': {'rejections_observed': 5000,
                       'acceptances_observed': 500,
                       'nodes_typed_by_create_node_monitor': 5000}})

reg('C04', module='c04', level='exploration',
    technique=('runtime monitoring: shadow hash-consing table on '
               'create_node, accessor read-back vs blueprint, quiescent walks '
               'of the manager tables, cross-environment copy checks'),
    rule=('sets of ~300 blueprints (systematic, random, unnormalised '
          'variants, duplicates) built in 4-8 random orders in fresh '
          'environments with unrelated constructions interleaved; every '
          'numeric spelling of constants; random array values; random '
          'multi-source normalize() plans; distinct = (workload, case key)'),
    level_text=('object identity is compared with an independently computed '
                'structural key for every pair built, accessors are read '
                'back into blueprints and compared with the documented '
                'normal form, manager tables are walked at quiescent points. '
                'Held on the constructions observed.'),
    level_note=('trusts Python object identity and vf/c04.norm (the list of '
                'documented constructor normalisations)'),
    assumptions=['order of array-value assignments is not observable '
                 'structure (compared as a map)'],
    require={'quick': {'identity_checks': 5000, 'accessor_checks': 5000,
                       'spelling_checks': 300, 'normalize_checks': 200,
                       'array_value_get_checks': 2000,
                       'table_entries_walked': 10000}})

reg('C05', module='c05', level='exploration',
    technique=('runtime monitoring: FNode.substitute / MGSubstituter / '
               'MSSubstituter results judged by (a) the substitution lemma '
               'under the reference evaluator, (b) an independent recursive '
               'definition of MGS/MSS, (c) lambda-interpretation of function '
               'symbols; icontract type post-condition'),
    rule=('random formulas with nested/shadowing quantifiers and shared '
          'sub-DAGs x symbol maps (identity, swap, overlapping), term-key '
          'maps (key inside key, key equal to a replacement, x and not x), '
          'function interpretations with nested applications; 3 strategies; '
          'distinct = (formula key, index)'),
    level_text=('each substitution result is compared semantically on 16-20 '
                'interpretations (capture cases decided by an own binder '
                'analysis are skipped and counted) or structurally with the '
                'reference MGS/MSS result. Held on the executions observed.'),
    level_note='trusts vf/refeval.py, vf/c05.refsubst and vf/c04.norm_node',
    assumptions=['maps are type-correct; keys that pySMT requires to stay '
                 'literal (array-value indexes, Pow exponents) are not '
                 'replaced'],
    require={'quick': {'lemma_compared': 1500, 'exact_compared': 800,
                       'interp_compared': 500, 'contract_evals': 3000}})

reg('C06', module='c06', level='exploration',
    technique=('runtime monitoring: every derived constructor / infix form '
               'is built over symbols and its reference-evaluator value is '
               'compared with a direct Python definition on all argument '
               'values (Bool, BV widths 1-4/5) or a grid (Int/Real)'),
    rule=('table of ~1500 (constructor or infix form, arity, width, literal) '
          'cases; each is evaluated on every Boolean / bit-vector operand '
          'tuple and on a 15-17 point Int/Real grid; distinct = case name; '
          'exhaustive over the Boolean and bit-vector operand values of the '
          'listed widths'),
    level_text=('the formula actually built is evaluated by the independent '
                'evaluator for every operand tuple and compared with the '
                'mathematical function named by the constructor. Exhaustive '
                'for Bool and BV widths <= 4 (5 in thorough), sampled grid '
                'for Int/Real.'),
    level_note=('trusts vf/refeval.py and the Python definitions in vf/c06.py '
                '(written from the docstrings and SMT-LIB definitions)'),
    assumptions=['shifts by a Python integer k are checked for k < 2**width '
                 '(larger k cannot be written as a constant of that width)'],
    exhaustive={'quick': False, 'thorough': False},
    require={'quick': {'argument_tuples_evaluated': 50000,
                       'sbv_checked': 100, 'misc_checked': 4}})

reg('C12', module='c12', level='exploration',
    technique=('runtime monitoring: get_free_variables / get_atoms / is_qf / '
               'get_types / size observed against independent recursive '
               'definitions and semantic dependence tests with the '
               'reference evaluator'),
    rule=('hand-shaped binder/function/Boolean-in-theory cases plus random '
          'DAGs with sharing; all six size measures queried in random '
          'interleaved order; distinct = structural key of the formula'),
    level_text=('every answer is compared with an independently written '
                'definition on the formula structure, and the value of the '
                'formula is re-evaluated with non-reported symbols perturbed '
                'and through the Boolean skeleton over the reported atoms.'),
    level_note=('size measures follow the definitions documented in '
                'SizeOracle; sorts: every sort of a symbol/bound '
                'variable/constant/function signature must be reported, '
                'sorts of intermediate terms may be'),
    assumptions=['reference evaluator trusted for the dependence tests'],
    require={'quick': {'free_vars_compared': 3000, 'atoms_compared': 1500,
                       'sizes_compared': 30000, 'types_compared': 3000,
                       'atom_skeleton_checks': 3000,
                       'dependence_checks': 1000}})

reg('C13', module='c13', level='exploration',
    technique=('runtime monitoring: get_logic / get_theory / script logic '
               'observed against an independent feature extraction; '
               'exhaustive evaluation of <=, combine, get_closer_logic, '
               'most_generic_logic and the factory selection over '
               'pysmt.logics.LOGICS'),
    rule=('detection: hand-shaped feature formulas + random formulas; '
          'ordering: all pairs and triples of the named logics and of their '
          'theories (exhaustive); selection: every target logic x every '
          'singleton, pair, solver-declared list and 300-2000 random '
          'subsets; distinct = formula key / supported list'),
    level_text=('each feature used by the formula (sorts of all symbols incl. '
                'bound ones, operator families, quantifiers, constant arrays, '
                'non-linearity) must be enabled by the detected theory, '
                'logic and script logic; order axioms and selection '
                'post-conditions are evaluated on the complete finite space '
                'of named logics.'),
    level_note=('feature definitions in vf/c13.features are the trusted '
                'base; solver LOGICS lists are mirrored from the class '
                'attributes because native solver modules cannot be '
                'imported'),
    exhaustive={'quick': False, 'thorough': False},
    assumptions=['custom_type / arrays_const are not demanded of SMT-LIB 2 '
                 'script logics (no such flags in the standard logics)'],
    require={'quick': {'detections_compared': 3000, 'logic_triples': 300000,
                       'closer_checked': 30000, 'factory_selections': 300,
                       'theory_combines': 500}})

reg('C10', module='c10', level='exploration',
    technique=('runtime monitoring: outputs of nnf / prenex / aig / '
               'TimesDistributor / partitions / propagate_toplevel / Boolean '
               'qelim compared with their inputs by the reference evaluator '
               '(Bool and BV quantifiers exact) + independent shape '
               'predicates'),
    rule=('random Boolean structure over theory atoms with nested/shadowing '
          'quantifiers in Boolean positions, negated ITE/IFF shapes, sums of '
          'products, conjunctions of var/const equalities of every sort, '
          'Boolean-quantified formulas with 1-4 bound variables; distinct = '
          '(procedure, formula key)'),
    level_text=('input and output of every call are evaluated on all '
                'interpretations (finite symbol domains) or 20 corner-first '
                'samples, Int/Real binders under four quantification '
                'domains; the advertised shape is checked by predicates '
                'written independently of pySMT.'),
    level_note='trusts vf/refeval.py and the shape predicates in vf/c10.py',
    assumptions=['prenex is judged only on inputs whose quantifiers occur in '
                 'Boolean positions'],
    require={'quick': {'equivalences_compared': 8000, 'shapes_checked': 5000,
                       'proc_nnf': 1500, 'proc_prenex': 1000,
                       'proc_aig': 1500, 'proc_times_distributor': 500,
                       'proc_propagate_toplevel': 500,
                       'proc_qelim_shannon': 800, 'proc_qelim_selfsub': 800,
                       'proc_factory_qelim_selfsub': 300}})

reg('C11', module='c11', level='exploration',
    technique=('runtime monitoring: CNF / Ackermannization outputs checked '
               'model by model: every interpretation of the original symbols '
               'is evaluated by the reference evaluator and the residual '
               'clause set over the fresh symbols is decided by an own DPLL; '
               'eliminated functions are searched over all function tables'),
    rule=('Boolean structure over Bool/BV1/BV2 atoms with constants in every '
          'position, ITE, IFF, shared sub-formulas in both polarities; '
          'formulas with 1-2 function symbols over Bool/BV1 domains and '
          'nested applications; distinct = (procedure, formula key)'),
    level_text=('for every interpretation of the original symbols (all of '
                'them: finite domains) the input value is compared with the '
                'satisfiability of the output over the fresh symbols '
                '(exhaustive by DPLL), in both directions; for '
                'Ackermannization all function interpretations over the '
                'small domains are enumerated.'),
    level_note='trusts vf/refeval.py and the DPLL in vf/c11.py',
    assumptions=['Boolean-valued array reads are not used as atoms (not in '
                 'the quantifier text of the property)'],
    require={'quick': {'cnf_compared': 10000, 'ack_compared': 1000,
                       'shapes_checked': 10000, 'ack_models_backward': 5000,
                       'ack_models_forward': 5000}})

reg('C14', module='c14', level='exploration',
    technique=('runtime monitoring: twin environments - the same query after '
               'a random API history vs in a fresh environment, compared by '
               'an AC / fresh-name canonical key; re-query of earlier '
               'answers (offline history check)'),
    rule=('per case: a target formula, 3-8 related formulas sharing '
          'sub-DAGs, a history of 20-120 random calls (all analyses, '
          'transformations, printers, parsers, every constant spelling) '
          'followed by one of 28 queries; plus all ordered pairs of constant '
          'spellings; distinct = (query, target key)'),
    level_text=('results are turned into environment-free values and must '
                'be equal between the two environments; repeated calls must '
                'return the same object; answers recorded during the history '
                'are re-queried after later calls. Held on the histories '
                'observed.'),
    level_note='trusts vf/keys.py (canonical keys)',
    assumptions=['printed strings of formulas containing array values with '
                 'several assignments are not compared (their order follows '
                 'object addresses)'],
    require={'quick': {'twin_comparisons': 4000, 'history_calls': 200000,
                       'requeried_answers': 50000,
                       'constant_sequence_checks': 100}})

reg('C15', module='c15', level='fault_enumeration',
    technique=('runtime monitoring with fault injection: twin environments, '
               'one of which sees an injected failing call (ill-typed '
               'calls, malformed input, sys.monitoring fail-points raising '
               'inside walk_* callbacks); probe results compared; '
               'quiescent-point walk of walker stacks/memos'),
    rule=('23 kinds of failing call x random formulas x random fail-point '
          'index (1..12-th callback) x 4-12 probes on overlapping formulas; '
          'distinct = (kind, target key, index)'),
    level_text=('for each injected failure the subsequent probe sequence is '
                'compared with the same sequence in an environment that '
                'never saw the failure; additionally every long-lived walker '
                'must have an empty work stack (and one-shot memo) at the '
                'quiescent point after the failure.'),
    level_note=('trusts vf/keys.py; fail-points are injected at PY_START of '
                'walk_* functions, i.e. where an UnsupportedOperatorError '
                'or type error would originate'),
    assumptions=['results are compared modulo names of fresh symbols'],
    require={'quick': {'failures_injected': 2000, 'probes_compared': 10000}})

reg('C16', module='c16', level='exploration',
    technique=('runtime monitoring: SmtLibScript.get_last_formula and '
               'IncrementalTrackingSolver.assertions observed after every '
               'step of enumerated command sequences against an executable '
               'reference model of the SMT-LIB assertion stack'),
    rule=('all legal sequences up to length 5 (quick) / 6 (thorough) over 15 '
          'script commands (assert, assert-soft with ids/weights, push/pop '
          '0..2, reset-assertions, check-sat, objectives) and up to length '
          '5 / 6 over 14 solver calls (add_assertion, push/pop 0..2, '
          'reset_assertions, solve, solve under literal / non-literal '
          'assumptions, is_sat, is_valid, is_unsat), longer ones sampled; '
          'every assertion uses a unique symbol so that the live set is '
          'unambiguous; distinct = the sequence'),
    level_text=('the bounded space of legal command sequences is enumerated '
                'completely (exhaustive up to the stated length) and the '
                'reported assertions/goals are compared by object identity '
                'with a 30-line reference stack after every step; the solver '
                'side runs pySMT\'s own IncrementalTrackingSolver '
                'book-keeping over a brute-force back-end.'),
    level_note=('trusts vf/c16.RefStack; solver back-end is vf/brutesolver.py '
                '(only the documented proxy methods)'),
    exhaustive={'quick': True, 'thorough': True},
    assumptions=['objectives and soft assertions are scoped by push/pop and '
                 'cleared by reset-assertions (assertion-stack semantics)'],
    require={'quick': {'script_compared': 200000,
                       'script_parsed_compared': 1000,
                       'solver_steps_compared': 50000,
                       'verdicts_compared': 9}})

reg('C19', module='c19', level='exploration',
    technique=('runtime monitoring: real Portfolio objects over reference '
               'solver processes with per-query delay and failure mode, '
               'sys.monitoring delay points inside Portfolio._solve and '
               '_run_solver, a liveness watch that decides "blocks for '
               'ever" from the absence of live member processes; verdict, '
               'model and value checked against brute-force truth'),
    rule=('scenarios (one process group each): 2-4 members x delays '
          '{0,1,2,5,20,100} ms incl. ties and near-ties x failure modes '
          '{unknown, error, crash, garbage, unstartable binary, exit after '
          'answer, hang} on subsets / on all members x exit_on_exception x '
          'delay points {0,2,10,40} ms in parent and members x 1-5 cycles '
          'of assert/push/pop/solve/get_model/get_value whose verdict '
          'keeps flipping; duplicate member names; is_sat/is_valid/is_unsat '
          'shortcuts with portfolio=; distinct = scenario specification'),
    level_text=('Every verdict equals the brute-force truth of the live '
                'assertions; every model / value obtained after sat '
                'satisfies them; a failing member never turns into an '
                'exception while another member answers (unless '
                'exit_on_exception); when every member fails the call '
                'raises; the parent is never found waiting with no member '
                'process alive.'),
    level_note='trusts vf/refsolver.py (members) and vf/refeval.py (truth)',
    assumptions=['members are vf/refsolver.py processes behind the real '
                 'SmtLibSolver text interface; the OS scheduler is '
                 'perturbed by delays, not controlled: interleavings are '
                 'sampled, not enumerated',
                 'a hanging member is only combined with an answering one '
                 '(a solver that runs for ever is not a failure)'],
    require={'quick': {'scenarios_completed': 150, 'verdicts_observed': 300,
                       'models_checked': 80, 'all_failed_reported_error': 10,
                       'verdicts_with_failed_members': 40, 'near_ties': 40}})

reg('C20', module='c20', level='exploration',
    technique=('runtime monitoring: per-node callback counts observed from '
               'outside (wrapped walker function tables, sys.monitoring '
               'PY_START counts for printers/parser, create_node counts) on '
               'diamond-chain and deep-chain formula families'),
    rule=('for each of 30 nestable operator families x 22 procedures: two '
          'diamond chains (tree size exponential, 40/80 levels quick, '
          '100/200 thorough) and one left-deep chain (depth 3000 quick, '
          '20000 thorough) under the default recursion limit; distinct = '
          '(procedure, family)'),
    level_text=('the number of per-node callbacks must stay below 4 x '
                '(distinct nodes) and grow at most 2.5x when the DAG '
                'doubles; every procedure must complete on a chain nested '
                'deeper than the recursion limit. Counts are measured, '
                'wall-clock time is never a verdict.'),
    level_note=('callbacks are counted by wrapping walker tables from the '
                'harness; a zero count is reported as a failed monitor'),
    assumptions=['arithmetic families interpose an ITE so that the '
                 'simplifier/distributor output itself stays linear (sum '
                 'flattening without coefficient merging has exponential '
                 'output size by construction)'],
    shards={'quick': 16, 'thorough': 16},
    require={'quick': {'diamond_measurements': 400, 'deep_chains_ok': 300,
                       'callbacks_counted': 100000}})

reg('C18', module='c18', level='exploration',
    technique=('runtime monitoring: pySMT optimiser mix-ins run over a '
               'brute-force solver back-end; returned models/costs/fronts '
               'compared with optima computed by enumerating all models '
               'with the reference evaluator; assertion stack compared '
               'before/after and by a push/assert/pop round trip'),
    rule=('random finite-domain constraint systems (Bool, BV3, integers '
          'bounded to [-4,4]) x Int/BV/MaxSMT/MinMax/MaxMin goals x {linear, '
          'binary} x {assumption-based, incremental} x {optimize, boxed, '
          'lexicographic, pareto} x two model-enumeration orders; distinct = '
          '(mode, mixin, strategy, case index)'),
    level_text=('every returned cost is compared with the optimum over the '
                'complete model set (finite domains, enumerated), models are '
                're-evaluated against the assertions, unsat <-> None, exact '
                'lexicographic vectors and Pareto fronts; progress is judged '
                'in solver calls, never wall-clock.'),
    level_note=('the satisfiability oracle is vf/brutesolver.py (exhaustive '
                'enumerator); trusts vf/refeval.py'),
    assumptions=['soft-clause weights are integers whenever bisection is '
                 'used', 'all optima are attained (bounded domains)'],
    require={'quick': {'optimisations_run': 3000, 'optima_compared': 2000,
                       'stack_roundtrips': 2000, 'mode_pareto': 500,
                       'mode_lexicographic': 500}})

reg('C07', module='c07', level='exploration',
    technique=('runtime monitoring: text written by to_smtlib / '
               'smtlibscript_from_formula + serialize is read by an '
               'independent strict SMT-LIB 2.6 reader (own tokenizer, sort '
               'checker, scoping) and its value is compared with the '
               'reference value of the FNode'),
    rule=('hand-shaped cases (let-name clashes, bound .def_N, negative/'
          'rational/huge constants, quotes, constant arrays, parametric '
          'sorts, hostile symbol names), every operator with systematic '
          'operand shapes, random DAGs with sharing and hostile names; x '
          '{tree, dag} term printers x {tree, dag} scripts; distinct = '
          '(printer, formula key)'),
    level_text=('each printed text must be accepted by the strict reader '
                '(declared-before-use, exactly once, well-sorted, standard '
                'symbols only) and evaluate like the formula on all '
                'interpretations (finite domains) or 16 samples.'),
    level_note=('trusts vf/smtread.py (own reading of the SMT-LIB 2.6 '
                'standard) and vf/refeval.py'),
    assumptions=['symbol names: any printable string except reserved words, '
                 'theory symbols, literal spellings and names containing | '
                 'or backslash', '(/ n m) over numerals is accepted as a '
                 'rational literal'],
    require={'quick': {'texts_compared': 3000, 'how_dag': 800,
                       'how_script-dag': 300}})

reg('C17', module='c17', level='exploration',
    technique=('runtime monitoring: SmtLibSolver (obtained through '
               'add_generic_solver + Solver(name=...)) driven through random '
               'API histories against a strict reference SMT-LIB solver '
               'process whose command/reply log is checked offline; verdicts '
               'and models compared with brute-force truth'),
    rule=('histories of 4-25 calls over add_assertion / push(1|2) / pop(1|2) '
          '/ solve / get_value / get_py_value / get_model / '
          'reset_assertions / is_sat / is_valid / is_unsat on formulas over '
          'Bool, BV2 and a declared sort with symbols first used at '
          'different levels; plus the factory shortcuts; distinct = '
          'history index (each history is a fresh random sequence)'),
    level_text=('the reference solver rejects every illegal command '
                '(undeclared/redeclared symbol, pop beyond depth, ill-sorted '
                'term) and logs one reply per command; the harness joins '
                'that log with its own record of API calls, truth is '
                'computed by exhaustive search, models are re-evaluated.'),
    level_note='trusts vf/smtread.py, vf/refsolver.py and vf/refeval.py',
    assumptions=['finite-domain theories only (Bool, bit-vectors, declared '
                 'sorts without functions)'],
    require={'quick': {'histories': 800, 'api_calls': 8000,
                       'commands_logged': 8000, 'verdicts_compared': 1500,
                       'shortcuts_compared': 50}})

reg('C08', module='c08', level='exploration',
    technique=('runtime monitoring: SMT-LIB text generated with syntactic '
               'variants is read by the real parser and by an independent '
               'strict reader; every returned command argument is compared '
               'by reference value; malformed variants must raise; '
               'rejections are checked against a committed list of '
               'unhandled constructs'),
    rule=('type-directed random scripts (6 theory themes x logics incl. '
          'none; declare-fun/-const/-sort, define-fun with parameters, '
          'define-sort, parallel/nested/shadowing let, quantifiers shadowing '
          'globals and definitions, numerals/decimals/rationals by logic, '
          '#b/#x/(_ bvN w), indexed operators, chainable forms, (as const), '
          'annotations, push/pop/reset, get-value, check-sat-assuming) x '
          'renderings (white space, CR/LF, comments, |quoted| simple '
          'symbols); hand-written corner scripts; malformed variants '
          '(undeclared identifier, unknown command, wrong arity, ill-sorted, '
          'unbalanced); model texts for parse_model; distinct = script text'),
    level_text=('For every script both readers accept, command lists agree '
                'and each asserted term, definition body, declaration, '
                'get-value / check-sat-assuming argument has the value the '
                'independent reader gives the text under exhaustive or '
                'sampled interpretations; listed malformed variants raise; '
                'a script rejected by the parser must contain a construct '
                'listed as unhandled in data/accept_baseline.json.'),
    level_note='trusts vf/smtread.py and vf/refeval.py',
    assumptions=['the independent reader implements SMT-LIB 2.6 for the '
                 'fragment the generator writes; quantifiers are evaluated '
                 'over small finite domains on both sides'],
    require={'quick': {'scripts_compared': 1500, 'terms_compared': 4000,
                       'malformed_variants': 400, 'models_compared': 100}})

reg('C09', module='c09', level='exploration',
    technique=('runtime monitoring: print/parse round trips observed by '
               'object identity (SMT-LIB), command-list keys (scripts) and '
               'type + reference value + flattened structure (HR)'),
    rule=('random formulas (sharing, quantifiers, all theories, hostile '
          'names, .def_N names) x {tree, dag} printers; API-built scripts of '
          'serialisable commands (declarations, define-fun with parameters, '
          'assert(-soft), push/pop, check-sat, get-value, objectives); '
          'formulas of the HR fragment; distinct = (procedure, formula key)'),
    level_text=('parse(print(f)) must be the very same object (constant '
                'array literals compared after folding store chains); a '
                'parsed script must re-serialise to text that parses to the '
                'same command list (definition parameters renamed); HR '
                'round trips must keep type, value and structure up to '
                'grouping of n-ary operators.'),
    level_note='trusts vf/keys.py, vf/refeval.py',
    assumptions=['HR fragment: identifiers [A-Za-z_][A-Za-z0-9_]* that are '
                 'not HR keywords, string constants without quote/backslash, '
                 'no custom sorts, no String inside Array sorts, no Pow'],
    require={'quick': {'identity_compared': 4000, 'hr_compared': 2000,
                       'scripts_compared': 1000}})
