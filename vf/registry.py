"""Property table: module, shards, budgets, evidence texts."""

PROPS = {}


def reg(pid, **kw):
    PROPS[pid] = kw


reg('C01', module='c01', level='exploration',
    technique=('runtime monitoring: post-condition oracle on '
               'Simplifier.simplify (icontract) + independent reference '
               'evaluator over enumerated and random formulas'),
    level_text=('every simplify() result observed is compared with its input '
                'by an independent SMT-LIB evaluator on all interpretations '
                '(finite symbol domains) or 16-24 corner-first samples; '
                'type and free symbols are re-derived independently. Held '
                'on the K executions reported in the evidence file, not a '
                'proof.'),
    level_note=('trusts vf/refeval.py (own SMT-LIB semantics) and vf/bp.py '
                'typing; Int/Real quantifiers are evaluated over finite '
                'domains'),
    rule=('systematic operator x operand-shape enumeration, exhaustive BV '
          'widths, string/division grids, random DAGs; a case is the built '
          'formula; distinct = distinct structural key of the input; '
          'non-trivial = the result was compared with the reference '
          'evaluator on >= 1 interpretation'),
    assumptions=['reference evaluator vf/refeval.py implements SMT-LIB 2.6 '
                 'semantics (trusted base)',
                 'Int/Real quantifiers evaluated over finite domains D '
                 '(property is stated for every non-empty domain)',
                 'interpretations with a division by zero are skipped'],
    require={'quick': {'compared': 2000, 'contract_evals': 2000},
             'thorough': {'compared': 20000, 'contract_evals': 20000}})
