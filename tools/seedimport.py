#!/venv/bin/python
"""Confirm sub-agent deliverables in a scratch worktree and import them.

  tools/seedimport.py SRC_DIR WORKTREE [--round 2]

For every SRC_DIR/<id>/ (patch.diff, demo.py, meta.json): demo on the clean
worktree must exit 0; with the patch applied demo must exit 1 and the
repository's test-suite must still pass (376 passed); the patch is reverted.
Confirmed changes are copied to /verif/seeded/<id>/ (meta.json extended)."""
import json
import os
import shutil
import subprocess
import sys

VERIF = os.path.dirname(os.path.dirname(os.path.abspath(__file__)))
PY = '/venv/bin/python'


def sh(cmd, **kw):
    return subprocess.run(cmd, shell=isinstance(cmd, str),
                          stdout=subprocess.PIPE, stderr=subprocess.STDOUT,
                          text=True, **kw)


def main():
    src, wt = sys.argv[1], sys.argv[2]
    rnd = os.environ.get('SEED_ROUND', '2')
    only = sys.argv[3].split(',') if len(sys.argv) > 3 else []

    def demo(path):
        r = sh([PY, path], cwd='/', env=dict(os.environ, PYTHONPATH=wt),
               timeout=900)
        return r.returncode
    for d in sorted(os.listdir(src)):
        sd = os.path.join(src, d)
        if not os.path.isdir(sd) or not all(os.path.exists(
                os.path.join(sd, x)) for x in ('patch.diff', 'demo.py',
                                               'meta.json')):
            continue
        if only and not any(d.startswith(x) for x in only):
            continue
        dst = os.path.join(VERIF, 'seeded', d)
        if os.path.exists(dst):
            continue
        st = sh('git -C %s status --porcelain --untracked-files=no' % wt)
        if st.stdout.strip():
            print('worktree not clean', st.stdout)
            return 2
        res = {'demo_exit_unpatched': demo(os.path.join(sd, 'demo.py'))}
        ap = sh('git -C %s apply %s' % (wt, os.path.join(sd, 'patch.diff')))
        if ap.returncode != 0:
            print(d, 'patch does not apply', ap.stdout[-200:])
            continue
        try:
            res['demo_exit_patched'] = demo(os.path.join(sd, 'demo.py'))
            t = sh('cd %s && PYTHONPATH=%s %s -m pytest -q -p no:cacheprovider'
                   ' --timeout=900 -n 6 pysmt/test 2>&1 | tail -1' % (
                       wt, wt, PY), timeout=3600)
            res['tests_with_patch'] = t.stdout.strip()[-80:]
        finally:
            sh('git -C %s checkout -- .' % wt)
        ok = res['demo_exit_unpatched'] == 0 and \
            res['demo_exit_patched'] == 1 and \
            res['tests_with_patch'].startswith('376 passed')
        print(d, res, 'OK' if ok else 'REJECTED')
        if not ok:
            continue
        meta = json.load(open(os.path.join(sd, 'meta.json')))
        meta['agent_reported'] = dict(
            (k, meta.pop(k)) for k in ('tests_passed_with_patch',
                                       'demo_exit_unpatched',
                                       'demo_exit_patched') if k in meta)
        meta['origin'] = ('independent sub-agent (round %s), given only the '
                          'property text and a scratch worktree' % rnd)
        meta['ported'] = False
        meta['confirmed'] = res
        os.makedirs(dst)
        shutil.copy(os.path.join(sd, 'patch.diff'), dst)
        shutil.copy(os.path.join(sd, 'demo.py'), dst)
        with open(os.path.join(dst, 'meta.json'), 'w') as f:
            json.dump(meta, f, indent=1)


main()
