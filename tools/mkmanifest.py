#!/venv/bin/python
"""Regenerate MANIFEST.json from vf/registry.py (run from /verif)."""
import json
import os
import sys

sys.path.insert(0, os.path.dirname(os.path.dirname(os.path.abspath(__file__))))
from vf import registry

ALL = ['C%02d' % i for i in range(1, 21)]
BASE = ("cd /repo && /venv/bin/python -m pytest -ra -q -p no:cacheprovider "
        "--timeout=900 --continue-on-collection-errors")
m = {
    "version": 1,
    "setup_cmd": "./check setup",
    "hooks": {
        "guard": "PYSMT_VERIF",
        "enable": ("no source hooks: every monitor attaches from the harness "
                   "(icontract / functools.wraps on the real classes, "
                   "sys.monitoring, reference solver processes registered "
                   "through the public API); checks import pysmt from /repo's "
                   "working tree via PYTHONPATH"),
        "baseline_off_cmd": BASE,
        "source_commits": [],
        "add_only": True,
    },
    "engines": [
        {"name": "runtime-monitoring harness", "path": "/verif/check",
         "serves_properties": [p for p in ALL if p in registry.PROPS],
         "kind_free_text": ("generated/enumerated workloads drive the real "
                            "pySMT code; monitors (contracts, create_node "
                            "wrapper, reference evaluator, reference SMT-LIB "
                            "reader/solver) judge every execution")}],
    "checks": [],
    "not_applicable": [],
    "notes": ("Verdicts are three-valued: exit 0 held on what was observed, "
              "exit 1 VIOLATION, exit 2 inconclusive (never folded into the "
              "others). Genuine defects found on the pinned tree were "
              "repaired by 'fix:' commits in /repo; see known_findings.json "
              "and DESIGN.md section 6."),
}
for p in ALL:
    if p in registry.PROPS:
        info = registry.PROPS[p]
        m["checks"].append({
            "property_id": p,
            "quick_cmd": "./check %s --tier quick" % p,
            "thorough_cmd": "./check %s --tier thorough" % p,
            "evidence_file": "/verif/evidence/%s.json" % p,
            "replay_cmd_template": "./check %s --replay {path}" % p,
            "engine": "runtime-monitoring harness",
            "level_claimed": {
                "category": info.get('level', 'exploration'),
                "text": info.get('level_text', ''),
                "design_ref": "DESIGN.md section 2, " + p,
            },
            "level_note": info.get('level_note', ''),
            "technique": info.get('technique', 'runtime monitoring'),
        })
    else:
        m["not_applicable"].append({
            "property_id": p,
            "reason": "check not built yet (work in progress; DESIGN.md "
                      "section 2 describes the planned monitor)"})
with open('MANIFEST.json', 'w') as f:
    json.dump(m, f, indent=1)
print('checks:', [c['property_id'] for c in m['checks']])
