#!/venv/bin/python
"""Rewrites section 8 of DESIGN.md (which check catches which seeded change)
from /verif/seeded/*/meta.json."""
import json
import os
import re

VERIF = os.path.dirname(os.path.dirname(os.path.abspath(__file__)))


def main():
    rows = []
    base = os.path.join(VERIF, 'seeded')
    n = det = 0
    for d in sorted(os.listdir(base)):
        m = json.load(open(os.path.join(base, d, 'meta.json')))
        c = m.get('confirmed', {})
        db = m.get('detected_by', {})
        n += 1
        ok = bool(db.get('detected'))
        det += ok
        key = ''
        if db.get('first_keys'):
            key = db['first_keys'][0].split('  ')[0].replace('key=', '')
        files = ', '.join(os.path.basename(f) for f in m.get('files', []))
        what = m.get('summary', '').replace('|', '\\|').replace('\n', ' ')
        what = what[:150] + ('…' if len(what) > 150 else '')
        rows.append('| %s | %s | %s | %s/%s, %s | %s | %s |' % (
            d, files, what, c.get('demo_exit_unpatched'),
            c.get('demo_exit_patched'),
            (c.get('tests_with_patch') or '').split(',')[0],
            ('`./check %s`' % m['property']) if ok else '**missed**',
            '`%s`' % key[:90] if key else ''))
    text = ('%d seeded changes (written by independent sub-agents that saw '
            'only a property\'s text and a scratch worktree; some ported by '
            'hand after `fix:` commits touched the same lines - '
            '`meta.json: ported`).  Each was confirmed in `/repo` by '
            '`tools/seedcheck.py --tests`: demo exits 0 unpatched / 1 '
            'patched, the pinned suite still passes with the patch, then the '
            'property\'s quick check was run against the patched tree and '
            'the patch reverted.  %d of %d are caught by the quick tier of '
            'the check of their property.\n\n'
            '| change | files | what was changed | demo 0/1, tests | caught '
            'by | first violation key |\n|----|----|----|----|----|----|\n'
            % (n, det, n)) + '\n'.join(rows) + '\n'
    p = os.path.join(VERIF, 'DESIGN.md')
    s = open(p).read()
    i = s.index('## 8. Seeded changes')
    j = s.index('## 9. As built')
    s = s[:i] + '## 8. Seeded changes: which check catches which\n\n' + \
        text + '\n' + s[j:]
    open(p, 'w').write(s)
    print('%d/%d detected' % (det, n))


main()
