#!/venv/bin/python
"""Regenerates the tables of DESIGN.md that are derived from data:
section 6.1 / 6.2 (known_findings.json) and section 8 (seeded/*/meta.json)."""
import json
import os
import re
import subprocess

VERIF = os.path.dirname(os.path.dirname(os.path.abspath(__file__)))


def main():
    p = os.path.join(VERIF, 'DESIGN.md')
    s = open(p).read()
    d = json.load(open(os.path.join(VERIF, 'known_findings.json')))
    rows = []
    for f in d['fixed']:
        m = re.match(r'fixed: property=(C\d\d) ([0-9a-f]{7}) (.*)', f, re.S)
        rows.append('| %s | `%s` | %s |' % (
            m.group(1), m.group(2),
            m.group(3).replace('|', '\\|').replace('\n', ' ')[:300]))
    rec = []
    for f in d['findings']:
        rec.append('| %s | `%s` | %s |' % (
            f['property'], f['key'], f['what'].replace('|', '\\|')[:520]))
    i = s.index('### 6.1 Repaired')
    j = s.index('## 7. Layout')
    s = s[:i] + '''### 6.1 Repaired (`fixed:` entries; they suppress nothing)

| property | commit | what failed |
|----|----|----|
%s

### 6.2 Recorded (`KNOWN-FINDING` lines; each suppresses exactly its key)

| property | key | what fails and why it is not repaired |
|----|----|----|
%s

''' % ('\n'.join(rows), '\n'.join(rec)) + s[j:]
    open(p, 'w').write(s)
    subprocess.run([os.path.join(VERIF, 'tools', 'seedtable.py')])


main()
