#!/venv/bin/python
"""Confirm seeded changes and run the checks against them.

  tools/seedcheck.py [--tests] [--only ID_PREFIX] [--tier quick]

For every /verif/seeded/<id>/ (patch.diff, demo.py, meta.json):
  * demo.py on the unchanged tree must exit 0,
  * apply the patch to /repo (which must be clean), demo.py must exit 1,
  * optionally the repository's test-suite must still pass,
  * the check of the property (if registered) is run and must exit 1,
  * the patch is reverted straight afterwards.
Results are written back into meta.json ("confirmed", "detected_by").
"""
import argparse
import json
import os
import subprocess
import sys

VERIF = os.path.dirname(os.path.dirname(os.path.abspath(__file__)))
REPO = '/repo'
PY = '/venv/bin/python'


def sh(cmd, **kw):
    return subprocess.run(cmd, shell=isinstance(cmd, str),
                          stdout=subprocess.PIPE, stderr=subprocess.STDOUT,
                          text=True, **kw)


def demo(path):
    env = dict(os.environ, PYTHONPATH=REPO)
    r = sh([PY, path], cwd='/', env=env, timeout=600)
    return r.returncode


def main():
    ap = argparse.ArgumentParser()
    ap.add_argument('--tests', action='store_true')
    ap.add_argument('--only', default='')
    ap.add_argument('--tier', default='quick')
    ap.add_argument('--nocheck', action='store_true')
    ap.add_argument('--match', default='')
    a = ap.parse_args()
    sys.path.insert(0, VERIF)
    from vf import registry
    st = sh('git -C /repo status --porcelain --untracked-files=no').stdout
    if st.strip():
        print('repo not clean:', st)
        return 2
    rows = []
    base = os.path.join(VERIF, 'seeded')
    for d in sorted(os.listdir(base)):
        if not d.startswith(a.only) or a.match not in d:
            continue
        sd = os.path.join(base, d)
        meta_p = os.path.join(sd, 'meta.json')
        meta = json.load(open(meta_p))
        prop = meta['property']
        res = {'demo_unpatched': demo(os.path.join(sd, 'demo.py'))}
        ap_ = sh('git -C /repo apply %s' % os.path.join(sd, 'patch.diff'))
        if ap_.returncode != 0:
            res['apply'] = 'FAILED: ' + ap_.stdout[-200:]
            rows.append((d, res))
            continue
        try:
            res['demo_patched'] = demo(os.path.join(sd, 'demo.py'))
            if a.tests:
                t = sh('cd /repo && %s -m pytest -q -p no:cacheprovider '
                       '--timeout=900 -n 8 pysmt/test 2>&1 | tail -1' % PY,
                       timeout=1800)
                res['tests'] = t.stdout.strip()[-80:]
            if prop in registry.PROPS and not a.nocheck:
                c = sh([os.path.join(VERIF, 'check'), prop, '--tier',
                        a.tier], cwd=VERIF, timeout=7200,
                       env=dict(os.environ, VERIF_NO_EVIDENCE='1'))
                res['check_exit'] = c.returncode
                keys = [l.strip()[:200] for l in c.stdout.splitlines()
                        if l.strip().startswith('key=')]
                res['check_keys'] = keys[:3]
        finally:
            sh('git -C /repo checkout -- .')
        meta['confirmed'] = {
            'demo_exit_unpatched': res.get('demo_unpatched'),
            'demo_exit_patched': res.get('demo_patched'),
            'tests_with_patch': res.get('tests', meta.get(
                'confirmed', {}).get('tests_with_patch')),
        }
        if 'check_exit' in res:
            meta['detected_by'] = {
                'check': './check %s --tier %s' % (prop, a.tier),
                'exit': res['check_exit'],
                'detected': res['check_exit'] == 1,
                'first_keys': res.get('check_keys', []),
            }
        json.dump(meta, open(meta_p, 'w'), indent=1)
        rows.append((d, res))
        print(d, json.dumps(res)[:300], flush=True)
    bad = [d for d, r in rows if r.get('check_exit', 1) != 1
           or r.get('demo_patched') != 1 or r.get('demo_unpatched') != 0]
    print('not detected / not confirmed:', bad)
    # restore the evidence files of the unchanged tree
    return 0


if __name__ == '__main__':
    sys.exit(main())
