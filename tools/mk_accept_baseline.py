#!/venv/bin/python
"""Records data/accept_baseline.json from the CURRENT tree: which corner
scripts of vf/c08.py the parser accepts (they must stay accepted).  The lists
of unhandled generator features / construct signatures are maintained by hand
(see DESIGN.md, C08); this tool keeps them as they are."""
import json
import os
import sys

sys.path.insert(0, os.path.dirname(os.path.dirname(os.path.abspath(__file__))))
from vf import common
common.bind_repo()
from vf import c08

UNHANDLED_FEATURES = [
    'chain-implies', 'chain-xor', 'chain-=', 'chain-cmp', 'chain-minus',
    'chain-bv', 'int-mod', 'int-abs', 'std-str-int', 'rotate-wide',
    'empty-symbol', 'redeclare']


def main():
    old = {}
    if os.path.exists(c08.BASELINE):
        old = json.load(open(c08.BASELINE))
    acc = []
    for text in c08.CORNERS:
        script, err = c08.read_pysmt(text)
        rd, merr = c08.read_m3(text)
        if err is None and merr is None:
            acc.append(text)
    d = {'comment': 'constructs the SMT-LIB parser does not handle on the '
         'pinned tree (+ fix commits); everything else the C08 generator '
         'writes must stay accepted',
         'unhandled_features': old.get('unhandled_features',
                                       UNHANDLED_FEATURES),
         'unhandled_constructs': old.get('unhandled_constructs', []),
         'accepted_corners': acc}
    os.makedirs(os.path.dirname(c08.BASELINE), exist_ok=True)
    with open(c08.BASELINE, 'w') as f:
        json.dump(d, f, indent=1, ensure_ascii=False)
    print('%d of %d corner scripts accepted' % (len(acc), len(c08.CORNERS)))


main()
