#!/venv/bin/python
"""Writes data/require.json: for every deciding counter named in
vf/registry.py the minimum a quick run must reach = 40 % of the value in the
current evidence/<ID>.json (to be run after a quick sweep on an idle
machine).  A run below the minimum is *inconclusive*, never 'held'."""
import json
import os
import sys

VERIF = os.path.dirname(os.path.dirname(os.path.abspath(__file__)))
sys.path.insert(0, VERIF)
from vf import registry

out = {}
for prop, info in sorted(registry.PROPS.items()):
    p = os.path.join(VERIF, 'evidence', prop + '.json')
    if not os.path.exists(p):
        continue
    ev = json.load(open(p))
    if ev.get('tier') != 'quick':
        print(prop, 'evidence is not from a quick run: skipped')
        continue
    cnt = ev['coverage']['counters']
    out[prop] = {}
    for k in info.get('require', {}).get('quick', {}):
        v = cnt.get(k, 0)
        out[prop][k] = max(1, int(v * 0.4))
        print('%s %-36s observed %9d  minimum %9d' % (prop, k, v,
                                                       out[prop][k]))
with open(os.path.join(VERIF, 'data', 'require.json'), 'w') as f:
    json.dump(out, f, indent=1, sort_keys=True)
